"""Additional symbolic values / models (additive, imported by the contract modules
that need them):

  * T.vlist(t1, t2, ...)      a Python list of statically known length with symbolic elements
  * builtins set / frozenset / any / all over statically known element lists
  * SymDict / SymTupleList    heap objects modelling a dict with symbolic keys and a list of
                              (id, time) cells of symbolic length as z3 arrays (used for
                              SessionCache: entriesDict / entriesList)
  * Lock                      threading.Lock with ghost field `held`
  * a monotone clock for time.time()
"""
import builtins
import threading
import time as _time

import z3

from . import smt
from .builtins_model import model, _out, _raise
from .contract import REG
from .executor import Outcome, SpecFn
from .state import T
from .values import (V, VInt, VBool, VNone, VStr, VSeq, VTuple, VList, VDict, VObj, VPy, VOpaque, VExc,
                     Unsupported, truthy, fresh_name, to_val, eq_op, _lift)
from . import values as _values

# --------------------------------------------------------------------------
# T.vlist

_prev_make = T.make


def _make(self, name, st, bv=None):
    if self.kind == 'vlist':
        return VList([t.make('%s[%d]' % (name, i), st, bv) for i, t in enumerate(self.kw['items'])])
    if self.kind == 'symdict':
        return make_symdict(name, st)
    if self.kind == 'symtuplelist':
        return make_symtuplelist(name, st)
    if self.kind == 'lock':
        return make_lock(name, st, self.kw.get('held'))
    return _prev_make(self, name, st, bv)


T.make = _make
T.vlist = staticmethod(lambda *items: T('vlist', items=list(items)))
T.symdict = staticmethod(lambda: T('symdict'))
T.symtuplelist = staticmethod(lambda: T('symtuplelist'))
T.lock = staticmethod(lambda held=None: T('lock', held=held))


# --------------------------------------------------------------------------
# builtins over statically known element lists

@model(builtins.set, builtins.frozenset)
def m_set(ex, args, kw, st, fr, node):
    if not args:
        return _out(st, VPy(frozenset()))
    items = ex.iter_items(args[0], st)
    if items is None:
        raise Unsupported('set() of symbolic-length iterable')
    vals = []
    for it in items:
        if isinstance(it, VInt) and it.concrete() is not None:
            vals.append(it.concrete())
        elif isinstance(it, VStr):
            vals.append(it.s)
        else:
            raise Unsupported('set() of symbolic elements')
    return _out(st, VPy(frozenset(vals)))


def _anyall(is_any):
    def f(ex, args, kw, st, fr, node):
        items = ex.iter_items(args[0], st)
        if items is None:
            raise Unsupported('any/all of symbolic-length iterable')
        ts = [truthy(x) for x in items]
        if is_any:
            return _out(st, VBool(z3.Or(ts + [z3.BoolVal(False)])))
        return _out(st, VBool(z3.And(ts + [z3.BoolVal(True)])))
    return f


model(builtins.any)(_anyall(True))
model(builtins.all)(_anyall(False))


# --------------------------------------------------------------------------
# z3-array backed heap values

class VTerm(V):
    """An arbitrary z3 term kept in a heap field (arrays); havoc gives a fresh constant."""

    def __init__(self, t):
        self.t = t

    def fresh_like_(self, base):            # hook of values.fresh_like (havoc in loops / contract application)
        return VTerm(z3.Const(fresh_name(base), self.t.sort()))

    def __repr__(self):
        return 'VTerm(%s)' % self.t.sort()


ValSort = smt.Val
DomSort = z3.ArraySort(ValSort, z3.BoolSort())
MapSort = z3.ArraySort(ValSort, ValSort)
IdArr = z3.ArraySort(z3.IntSort(), ValSort)
TmArr = z3.ArraySort(z3.IntSort(), z3.IntSort())


def key_val(k):
    """dict keys / cell ids as terms of sort Val (bytes keys by content)"""
    return to_val(k)


class SymDictModel(object):
    """dict with symbolic keys: fields dom (Val->Bool), val (Val->Val).
    d[k] raises KeyError iff not dom[k]; d[k] = v; del d[k] raises KeyError iff not dom[k]."""

    def getitem(self, ex, d, k, st, node):
        dom = st.heap[(d.oid, 'dom')].t
        val = st.heap[(d.oid, 'val')].t
        kv = key_val(k)
        res = []
        ok, bad = ex.split(st, z3.Select(dom, kv))
        if bad is not None:
            res.append(ex.raise_(bad, KeyError, 'dict lookup line %d' % getattr(node, 'lineno', 0)))
        if ok is not None:
            res.append(Outcome('normal', ok, VOpaque(z3.Select(val, kv))))
        return res

    def setitem(self, ex, d, k, v, st, node):
        dom = st.heap[(d.oid, 'dom')].t
        val = st.heap[(d.oid, 'val')].t
        kv = key_val(k)
        st.heap[(d.oid, 'dom')] = VTerm(z3.Store(dom, kv, z3.BoolVal(True)))
        st.heap[(d.oid, 'val')] = VTerm(z3.Store(val, kv, to_val(v)))
        return [Outcome('normal', st)]

    def delitem(self, ex, d, k, st, node):
        dom = st.heap[(d.oid, 'dom')].t
        kv = key_val(k)
        res = []
        ok, bad = ex.split(st, z3.Select(dom, kv))
        if bad is not None:
            res.append(ex.raise_(bad, KeyError, 'dict delete line %d' % getattr(node, 'lineno', 0)))
        if ok is not None:
            ok.heap[(d.oid, 'dom')] = VTerm(z3.Store(dom, kv, z3.BoolVal(False)))
            res.append(Outcome('normal', ok))
        return res

    def contains(self, ex, d, k, st):
        return VBool(z3.Select(st.heap[(d.oid, 'dom')].t, key_val(k)))

    def getattr(self, ex, v, name, st):
        return None


class SymTupleListModel(object):
    """list of (id, time) pairs of symbolic length n: fields n (Int), ids (Int->Val), tms (Int->Int).
    l[i] (0 <= i < n, or negative) gives the pair; l[i] = (id, t) stores; len(l) = n."""

    def _idx(self, ex, l, i, st, node, what):
        """-> (raise outcomes, [(state, normalised index term)])"""
        n = st.heap[(l.oid, 'n')].t
        i = ex._as_int(i)
        ok, bad = ex.split(st, z3.And(-n <= i.t, i.t < n))
        res = []
        if bad is not None:
            res.append(ex.raise_(bad, IndexError, '%s line %d' % (what, getattr(node, 'lineno', 0))))
        oks = []
        if ok is not None:
            pos, neg = ex.split(ok, i.t >= 0)
            if pos is not None:
                oks.append((pos, i.t))
            if neg is not None:
                oks.append((neg, i.t + n))
        return res, oks

    def getitem(self, ex, l, i, st, node):
        res, oks = self._idx(ex, l, i, st, node, 'list index')
        for ok, k in oks:
            ids = ok.heap[(l.oid, 'ids')].t
            tms = ok.heap[(l.oid, 'tms')].t
            res.append(Outcome('normal', ok, VTuple([VOpaque(z3.Select(ids, k)), VInt(z3.Select(tms, k))])))
        return res

    def setitem(self, ex, l, i, v, st, node):
        if not (isinstance(v, VTuple) and len(v.items) == 2):
            raise Unsupported('SymTupleList store of %r' % (v,))
        res, oks = self._idx(ex, l, i, st, node, 'list assignment index')
        for ok, k in oks:
            ids = ok.heap[(l.oid, 'ids')].t
            tms = ok.heap[(l.oid, 'tms')].t
            ok.heap[(l.oid, 'ids')] = VTerm(z3.Store(ids, k, key_val(v.items[0])))
            ok.heap[(l.oid, 'tms')] = VTerm(z3.Store(tms, k, ex._as_int(v.items[1]).t))
            res.append(Outcome('normal', ok))
        return res

    def len(self, ex, l, st):
        return st.heap[(l.oid, 'n')]

    def getattr(self, ex, v, name, st):
        return None


REG.models['SymDict'] = SymDictModel()
REG.models['SymTupleList'] = SymTupleListModel()


def make_symdict(name, st, empty=False):
    o = st.alloc('SymDict')
    st.fresh_objs.discard(o.oid)
    if empty:
        st.heap[(o.oid, 'dom')] = VTerm(z3.K(ValSort, z3.BoolVal(False)))
    else:
        st.heap[(o.oid, 'dom')] = VTerm(z3.Const(fresh_name(name + '.dom'), DomSort))
    st.heap[(o.oid, 'val')] = VTerm(z3.Const(fresh_name(name + '.val'), MapSort))
    return o


def make_symtuplelist(name, st, n=None):
    o = st.alloc('SymTupleList')
    st.fresh_objs.discard(o.oid)
    nv = VInt(z3.Int(fresh_name(name + '.n'))) if n is None else n
    st.assume(nv.t >= 0)
    st.heap[(o.oid, 'n')] = nv
    st.heap[(o.oid, 'ids')] = VTerm(z3.Const(fresh_name(name + '.ids'), IdArr))
    st.heap[(o.oid, 'tms')] = VTerm(z3.Const(fresh_name(name + '.tms'), TmArr))
    return o


# --------------------------------------------------------------------------
# threading.Lock with ghost `held`

class LockModel(object):
    def getattr(self, ex, v, name, st):
        if name in ('acquire', 'release'):
            return VPy(SpecFn(getattr(self, 'm_' + name)(v), name))
        return None

    def m_acquire(self, v):
        def f(ex, args, kw, st, fr, node):
            held = st.heap[(v.oid, 'held')]
            # sequential semantics: acquiring a held lock blocks forever (self-deadlock): obligation
            ex.oblige(st, 'lock-acquire:not-held@L%d' % getattr(node, 'lineno', 0), z3.Not(truthy(held)),
                      kind='lock', where=getattr(node, 'lineno', 0))
            st.assume(z3.Not(truthy(held)))
            st.heap[(v.oid, 'held')] = VBool(z3.BoolVal(True))
            return [Outcome('normal', st, VBool(z3.BoolVal(True)))]
        return f

    def m_release(self, v):
        def f(ex, args, kw, st, fr, node):
            held = st.heap[(v.oid, 'held')]
            ok, bad = ex.split(st, truthy(held))
            res = []
            if bad is not None:
                res.append(ex.raise_(bad, RuntimeError, 'release unlocked lock line %d' % getattr(node, 'lineno', 0)))
            if ok is not None:
                ok.heap[(v.oid, 'held')] = VBool(z3.BoolVal(False))
                res.append(Outcome('normal', ok, VNone()))
            return res
        return f

    def enter(self, ex, v, st):
        return self.m_acquire(v)(ex, [], {}, st, None, None)

    def exit(self, ex, v, st):
        st.heap[(v.oid, 'held')] = VBool(z3.BoolVal(False))


REG.models['Lock'] = LockModel()


def make_lock(name, st, held=None):
    o = st.alloc('Lock')
    st.fresh_objs.discard(o.oid)
    st.heap[(o.oid, 'held')] = VBool(z3.Bool(fresh_name(name + '.held'))) if held is None else VBool(z3.BoolVal(held))
    return o


@model(threading.Lock)
def m_new_lock(ex, args, kw, st, fr, node):
    o = st.alloc('Lock')
    st.heap[(o.oid, 'held')] = VBool(z3.BoolVal(False))
    return _out(st, o)


# --------------------------------------------------------------------------
# monotone clock: time.time() returns a value >= every value returned before (ghost `$clock`).
# Time stamps are modelled as mathematical integers (no floating point rounding).

@model(_time.time)
def m_time(ex, args, kw, st, fr, node):
    now = VInt(z3.Int(fresh_name('now')))
    prev = st.ghost.get('$clock')
    if prev is not None:
        st.assume(now.t >= prev.t)
    st.ghost['$clock'] = now
    st.ghost.setdefault('$clock_reads', [])
    st.ghost['$clock_reads'] = st.ghost['$clock_reads'] + [now]
    return _out(st, now)


# --------------------------------------------------------------------------
# opt-in literals (Executor opts): `{}` as an empty SymDict, `[(a, b)] * n` (n symbolic) as a SymTupleList.
# Installed as additional Executor methods so that pyvc/executor.py stays untouched.
from .executor import Executor as _Executor

_prev_e_dict = getattr(_Executor, 'e_Dict', None)


def _e_dict(self, node, st, fr):
    if not node.keys and self.opts.get('symdict_literals'):
        o = make_symdict('dict@L%d' % node.lineno, st, empty=True)
        st.fresh_objs.add(o.oid)
        return [Outcome('normal', st, o)]
    if _prev_e_dict is not None:
        return _prev_e_dict(self, node, st, fr)
    raise Unsupported('dict display at line %d' % node.lineno)


_Executor.e_Dict = _e_dict

_prev_binop = _Executor.binop


def _binop(self, op, a, b, st, node):
    import ast as _ast
    if self.opts.get('symtuplelist_repeat') and isinstance(op, _ast.Mult) and isinstance(a, VList) and \
            len(a.items) == 1 and isinstance(a.items[0], VTuple) and len(a.items[0].items) == 2 and \
            isinstance(b, VInt) and b.concrete() is None:
        # [(x, y)] * n: n cells, every id cell == x; the time column of never-written cells is left
        # unconstrained (they hold y == None in Python; the verified operations read only cells written by
        # a store -- part of the representation invariant)
        n = VInt(z3.If(b.t < 0, 0, b.t))
        o = make_symtuplelist('list@L%d' % getattr(node, 'lineno', 0), st, n=n)
        st.fresh_objs.add(o.oid)
        st.heap[(o.oid, 'ids')] = VTerm(z3.K(z3.IntSort(), key_val(a.items[0].items[0])))
        return [Outcome('normal', st, o)]
    return _prev_binop(self, op, a, b, st, node)


_Executor.binop = _binop
