"""C08: list-valued fields of RECEIVED extensions are None when the peer sent the extension with an empty body
(ListExtension / VarListExtension ... parse: `if parser.getRemainingLength() == 0: <field> = None`).  Wherever the
handshake code iterates over, searches (`in`), subscripts or measures such a field of an extension taken from a peer
message, a test of the field must dominate the use; otherwise the peer can make the call end in TypeError.
The (extension type, field) table is read off the real extension classes of the tree (contracts.m2_server.NONE_FIELDS).
Six defects of this family were found by these obligations / the accompanying concrete run and fixed (F32-F38)."""
import ast

import z3

from pyvc.m2 import M2Spec, NoReturn, fresh_opaque
from pyvc.m2x import m2xtask
from pyvc.executor import Outcome
from pyvc.values import VOpaque, to_val, v_truthy, v_none
from pyvc import smt
from pyvc.contract import REG
from contracts.m2_common import TC, TRL, h_sendError
from contracts.m2_server import NONE_FIELDS, is_ext_value, _ext_types_of, _needs_a_list, attr_t, site, src, apps

KXQ = 'tlslite/keyexchange.py:'


def _msg_terms(t):
    """message terms the extension value was looked up in"""
    out = []
    for e in apps([t], lambda e: e.decl().name() == 'pure_getExtension_2'):
        f = e.arg(0)
        if z3.is_app(f) and f.decl().name() == 'v_attr_getExtension':
            out.append(f.arg(0))
    return out


def _mk(own):
    seen = []

    def on_getattr(ex, v, name, st, fr, node):
        if not (isinstance(node, ast.Attribute) and isinstance(node.ctx, ast.Load) and is_ext_value(v.t)):
            return
        if not any((t, name) in NONE_FIELDS for t in _ext_types_of(v.t)):
            return
        msgs = _msg_terms(v.t)
        if msgs and all(any(o in str(m) for o in own) for m in msgs):
            return                           # an extension of a message this endpoint built itself
        use = _needs_a_list(fr, node)
        if not use:
            return
        fld = attr_t(name, v.t)
        seen.append(src(node))
        ex.oblige(st, 'C08:received-extension-list-field-not-None-where-%s:%s' % (use.split()[0], site(
            fr, node, lambda n: isinstance(n, ast.Attribute) and src(n) == src(node), src(node))),
            z3.Implies(v.t != v_none, z3.Or(fld != v_none, v_truthy(fld))), kind='m2')

    def check(api):
        api.oblige(api.entry, 'executed', True)
    return on_getattr, check, seen


PURE = {'getExtension', 'len', 'isinstance', 'getattr', 'toRepr', 'getHash', 'getPadding', 'decode', '_getPRFParams',
        'HKDF_expand_label', 'derive_secret', 'secureHMAC', 'copy', 'digest', 'toStr', 'format', 'str'}

TASKS = [
    # (label, qualified name, substrings naming messages built by this endpoint)
    ('_handshakeServerAsyncHelper', TC + '_handshakeServerAsyncHelper', ('serverHello', 'ServerHello')),
    ('_serverTLS13Handshake', TC + '_serverTLS13Handshake', ('serverHello', 'ServerHello', 'encryptedExtensions', 'EncryptedExtensions', 'certificate_request', 'CertificateRequest')),
    ('_server_select_certificate', TC + '_server_select_certificate', ('serverHello',)),
    ('_pickServerKeyExchangeSig', TC + '_pickServerKeyExchangeSig', ('serverHello',)),
    ('_serverCertKeyExchange', TC + '_serverCertKeyExchange', ('serverHello',)),
    ('_serverSRPKeyExchange', TC + '_serverSRPKeyExchange', ('serverHello',)),
    ('_handshakeClientAsyncHelper', TC + '_handshakeClientAsyncHelper', ('clientHello', 'ClientHello')),
    ('_clientGetServerHello', TC + '_clientGetServerHello', ('clientHello', 'ClientHello')),
    ('_clientTLS13Handshake', TC + '_clientTLS13Handshake', ('clientHello', 'ClientHello')),
    ('_clientKeyExchange', TC + '_clientKeyExchange', ('clientHello', 'ClientHello')),
    ('AECDHKeyExchange.processServerKeyExchange', KXQ + 'AECDHKeyExchange.processServerKeyExchange', ('clientHello',)),
    ('AECDHKeyExchange.processClientKeyExchange', KXQ + 'AECDHKeyExchange.processClientKeyExchange', ('serverHello',)),
    ('AECDHKeyExchange.makeServerKeyExchange', KXQ + 'AECDHKeyExchange.makeServerKeyExchange', ('serverHello',)),
    ('ADHKeyExchange.makeServerKeyExchange', KXQ + 'ADHKeyExchange.makeServerKeyExchange', ('serverHello',)),
    ('_handle_pha', TRL + '_handle_pha', ()),
]

for _label, _q, _own in TASKS:
    try:
        from pyvc import source
        source.load(_q)
    except Exception:
        continue
    _og, _ck, _seen = _mk(_own)
    _spec = M2Spec(hooks={'_sendError': h_sendError}, pure=PURE)
    _spec.on_getattr = _og
    m2xtask('%s/received-extension-list-fields' % _label, ('C08',), _q, _spec, check=_ck,
            opts={'ground_feasible': True},
            doc='every iteration / `in` search / subscript / len() of a list field of an extension taken from a peer message is '
                'dominated by a test of that field (the field is None for an empty extension body)')

REG.note('C08', 'trusted', 'm2_ext_none: which extension fields can be None is read off the real classes (empty-body parse); '
                           'getExtension is a pure lookup; an extension of a message built by this endpoint is never empty-bodied')
