"""Verification tasks that are decided on the real AST (no SMT): common base.

A task is anything with `.key`, `.name`, `.prop`, `.qual` and
`.verify(reg, budget_ms) -> (results, meta)`; the results have the shape of
`pyvc.contract._mk_result` so that the driver treats them like every other
obligation (proved / refuted / undecided, named, attributable to a function).
"""
import ast
import time

from . import source
from .smt import Verdict


class AstTask(object):
    backend = 'ast'

    def __init__(self, name, prop, qual, doc=''):
        self.name = name
        self.key = 'ast:' + name
        self.qual = qual
        self.prop = tuple(prop) if isinstance(prop, (list, tuple)) else (prop,)
        self.doc = doc
        self._results = []
        self._t0 = 0.0

    # -- result construction
    def result(self, name, kind, verdict, reason=None, where=None, model=None, trace=None, qual=None):
        r = {'contract': self.name, 'qual': qual or self.qual, 'obligation': '%s::%s' % (self.name, name),
             'kind': kind, 'verdict': verdict, 'backend': self.backend, 's': 0.0, 'reason': reason,
             'model': model, 'trace': trace, 'where': where, 'prop': list(self.prop)}
        self._results.append(r)
        return r

    def holds(self, name, kind, ok, reason=None, where=None, model=None, trace=None, undecided=False, qual=None):
        """ok True -> proved; ok False -> refuted (or undecided when the
        analysis is only a may-analysis at this point)."""
        if ok:
            v = Verdict.PROVED
        else:
            v = Verdict.UNDECIDED if undecided else Verdict.REFUTED
        return self.result(name, kind, v, None if ok else reason, where, None if ok else model, trace, qual)

    # -- driver interface
    def verify(self, reg, budget_ms=10000):
        self._results = []
        t0 = time.time()
        meta = {'qual': self.qual, 'contract': self.name, 'paths': 0, 'inlined': [], 'opaque': [],
                'assumptions': []}
        if self.qual and ':' in self.qual and not self.qual.startswith('scenario:'):
            try:
                meta['sha256'] = source.load(self.qual).sha256
            except Exception:
                pass
        self.run(reg, meta)
        meta['exec_s'] = time.time() - t0
        if not self._results:
            raise RuntimeError('AST task %s produced no obligations' % self.name)
        return list(self._results), meta

    def run(self, reg, meta):
        raise NotImplementedError


def dotted(node):
    """'a.b.c' for Name/Attribute chains, else None."""
    parts = []
    while isinstance(node, ast.Attribute):
        parts.append(node.attr)
        node = node.value
    if isinstance(node, ast.Name):
        parts.append(node.id)
        return '.'.join(reversed(parts))
    return None


def parent_map(root):
    pm = {}
    for n in ast.walk(root):
        for c in ast.iter_child_nodes(n):
            pm[id(c)] = n
    return pm
