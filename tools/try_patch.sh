#!/bin/sh
# tools/try_patch.sh <patch> <prop> : apply a patch to /repo, run the check, undo.
set -u
P="$1"; PROP="$2"
git -C /repo apply "$P" || { echo "PATCH DOES NOT APPLY"; exit 9; }
cd /verif && ./check "$PROP" --tier "${3:-quick}" > /tmp/try_$PROP.out 2>&1; RC=$?
git -C /repo checkout -- .
grep -E "VIOLATION|KNOWN|UNDECIDED|PROBLEM" /tmp/try_$PROP.out | head -8
tail -1 /tmp/try_$PROP.out
echo "exit=$RC"
