#!/bin/bash
# tools/seed_matrix.sh [Cxx ...]: run every confirmed seeded change against the check of its property.
# Writes seeded/RESULTS.tsv  (seed, property, exit code, first VIOLATION line)
cd /verif
# works on a scratch worktree (so that /repo stays untouched while other checks run); removed at the end
WT=${VERIF_SCRATCH:-/var/tmp}/wt-seed-$$
git -C /repo worktree add -q --detach $WT HEAD
trap 'git -C /repo worktree remove --force $WT' EXIT
OUT=seeded/RESULTS.tsv
: > $OUT.tmp
for d in seeded/C*-*; do
  s=$(basename $d); p=${s%-*}
  if [ $# -gt 0 ]; then case " $* " in *" $p "*) ;; *) continue;; esac; fi
  grep -q "\"property_id\": \"$p\"" MANIFEST.json || { echo -e "$s\t$p\tunclaimed\t" >> $OUT.tmp; continue; }
  if ! git -C $WT apply --check /verif/$d/patch.diff 2>/dev/null; then echo -e "$s\t$p\tpatch-does-not-apply\t" >> $OUT.tmp; continue; fi
  git -C $WT apply /verif/$d/patch.diff
  VERIF_REPO=$WT ./check $p --tier quick > /tmp/seedrun_$s.out 2>&1; rc=$?
  git -C $WT checkout -- .
  v=$(grep -m1 VIOLATION /tmp/seedrun_$s.out | cut -c1-220)
  echo -e "$s\t$p\t$rc\t$v" | tee -a $OUT.tmp
done
mv $OUT.tmp $OUT
