from loop import *
from tlslite.utils.cryptomath import getRandomBytes
chain,key=creds()
# TLS1.2 ticket resumption where server rotated key
s1=HandshakeSettings(); s1.maxVersion=(3,3); s1.ticketKeys=[getRandomBytes(32)]; s1.ticket_count=1
s2=HandshakeSettings(); s2.maxVersion=(3,3); s2.ticketKeys=[getRandomBytes(32)]; s2.ticket_count=1
cs=HandshakeSettings(); cs.maxVersion=(3,3)
sess={}
def c1(conn):
    conn.handshakeClientCert(settings=cs); conn.write(b'hi'); r=conn.read(min=2,max=2); sess['s']=conn.session; conn.close(); return ('ok',conn.resumed,r, len(conn.session.tls_1_0_tickets or []))
def srv(settings):
    def f(conn):
        conn.handshakeServer(certChain=chain, privateKey=key, settings=settings); r=conn.read(min=2,max=2); conn.write(r); 
        try: conn.read(min=1,max=1)
        except Exception as e: pass
        return ('ok',conn.resumed)
    return f
print(run(c1, srv(s1)))
def c2(conn):
    conn.handshakeClientCert(settings=cs, session=sess['s']); conn.write(b'hi'); r=conn.read(min=2,max=2); conn.close(); return ('ok',conn.resumed,r)
print('same key:', run(c2, srv(s1)))
print('rotated key:', run(c2, srv(s2)))
