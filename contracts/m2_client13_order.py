"""C06/C04: the server flight accepted by the TLS 1.3 client (TLSConnection._clientTLS13Handshake):
   EncryptedExtensions, [CertificateRequest], Certificate, CertificateVerify, Finished     (certificate authentication)
   EncryptedExtensions, Finished                                                          (PSK)
RFC 8446 2 / 4.4: the messages are awaited in exactly this order; the transcript snapshot that CertificateVerify is
checked against is taken after the Certificate and before CertificateVerify is read; the Finished MAC is computed over the
transcript as it stands right before Finished is read and compared in full."""
import ast

import z3

from pyvc.m2 import M2Spec, m2task, fresh_opaque
from pyvc.executor import Outcome
from pyvc.values import VBool, VInt, VOpaque, VTuple, truthy, to_val, v_truthy, v_none
from pyvc import smt
from pyvc.contract import REG
from tlslite.constants import HandshakeType as HT, ContentType
from contracts.m2_common import TC, h_sendError
from contracts.m2_server13 import _const_types, gb, gset, OB, T, attr

Val = smt.Val
SNAP = z3.Function('ghost_snapshot_epoch', Val, z3.IntSort())
COUNT = {'getmsg': 0}
CERTS = {HT.certificate, HT.compressed_certificate}


def _epoch(st):
    v = st.ghost.get('epoch')
    return v.t if v is not None else z3.IntVal(0)


def _ht_names(expr):
    out = set()
    for n in ast.walk(expr):
        if isinstance(n, ast.Attribute) and isinstance(n.value, ast.Name) and n.value.id == 'HandshakeType' and hasattr(HT, n.attr):
            out.add(getattr(HT, n.attr))
    return out


def _assigned_types(stmt, name):
    """types assigned to `name` by this statement on every path through it, or None if it does not (always) assign"""
    if isinstance(stmt, ast.Assign) and any(isinstance(t, ast.Name) and t.id == name for t in stmt.targets):
        return _ht_names(stmt.value)
    if isinstance(stmt, ast.If) and stmt.orelse:
        a = [x for x in (_assigned_types(s_, name) for s_ in stmt.body) if x is not None]
        b = [x for x in (_assigned_types(s_, name) for s_ in stmt.orelse) if x is not None]
        if a and b:
            return a[-1] | b[-1]
    return None


def _static_types(fr, call, name):
    """reaching definitions of the local `name` at `call` (straight-line / if-else assignments of tuples of
    HandshakeType constants, as in `expected_msg = (...)`)"""
    parents = {}
    for p_ in ast.walk(fr.fs.node):
        for c in ast.iter_child_nodes(p_):
            parents[id(c)] = p_
    cur = call
    while id(cur) in parents:
        par = parents[id(cur)]
        for fld in ('body', 'orelse', 'finalbody'):
            blk = getattr(par, fld, None)
            if isinstance(blk, list) and cur in blk:
                for prev in reversed(blk[:blk.index(cur)]):
                    r = _assigned_types(prev, name)
                    if r is not None:
                        return r
        cur = par
    return None


def h_getMsg(ex, recv, args, kwargs, st, fr, node):
    COUNT['getmsg'] += 1
    ts = _const_types(ex, node, st, fr)
    if ts is None and len(node.args) >= 2 and isinstance(node.args[1], ast.Name):
        ts = _static_types(fr, node, node.args[1].id) or None
    m = fresh_opaque('server_msg')
    L = node.lineno
    OB(ex, st, 'order@L%d:only-handshake-records-awaited' % L, len(args) >= 1 and T(args[0]) == T(VInt(ContentType.handshake)))
    g = lambda k: gb(st, k)
    psk = st.env.get('sr_psk')
    if ts is None:
        OB(ex, st, 'order@L%d:expected-types-are-constants' % L, False)
    elif ts == {HT.encrypted_extensions}:
        OB(ex, st, 'order@L%d:EncryptedExtensions-is-the-first-message-awaited' % L,
           z3.Not(z3.Or(g('got_ee'), g('got_cr_or_cert'), g('got_cert'), g('got_cv'), g('got_fin'))))
        gset(st, 'got_ee')
    elif HT.certificate_request in ts and ts - {HT.certificate_request} <= CERTS:
        OB(ex, st, 'order@L%d:CertificateRequest|Certificate-awaited-right-after-EncryptedExtensions-and-only-without-PSK' % L,
           z3.And(g('got_ee'), z3.Not(z3.Or(g('got_cr_or_cert'), g('got_cert'), g('got_cv'), g('got_fin'))),
                  psk is not None and z3.Not(v_truthy(T(psk)))))
        gset(st, 'got_cr_or_cert')
        st.ghost['cr_or_cert_msg'] = m
    elif ts and ts <= CERTS:
        prev = st.ghost.get('cr_or_cert_msg')
        OB(ex, st, 'order@L%d:Certificate-awaited-a-second-time-only-after-a-CertificateRequest' % L,
           prev is not None and z3.And(g('got_cr_or_cert'), z3.Not(z3.Or(g('got_cert'), g('got_cv'), g('got_fin')))))
        gset(st, 'got_cert')
    elif ts == {HT.certificate_verify}:
        OB(ex, st, 'order@L%d:CertificateVerify-awaited-only-after-the-server-Certificate' % L,
           z3.And(g('got_cr_or_cert'), z3.Not(z3.Or(g('got_cv'), g('got_fin')))))
        snap = st.env.get('srv_cert_verify_hh')
        OB(ex, st, 'order@L%d:transcript-snapshot-for-CertificateVerify-taken-after-Certificate-and-before-CertificateVerify' % L,
           snap is not None and SNAP(T(snap)) == _epoch(st))
        gset(st, 'got_cv')
    elif ts == {HT.finished}:
        OB(ex, st, 'order@L%d:Finished-awaited-last(after-CertificateVerify-unless-PSK)' % L,
           z3.And(g('got_ee'), z3.Not(g('got_fin')), z3.Implies(g('got_cr_or_cert'), g('got_cv')),
                  z3.Or(g('got_cv'), psk is not None and v_truthy(T(psk)))))
        th = st.env.get('transcript_hash')
        OB(ex, st, 'order@L%d:Finished-MAC-input-is-the-transcript-right-before-Finished' % L,
           th is not None and SNAP(T(th)) == _epoch(st))
        gset(st, 'got_fin')
        st.ghost['fin_msg'] = m
    else:
        OB(ex, st, 'order@L%d:unexpected-message-types-awaited:%s' % (L, sorted(ts)), False)
    st.ghost['epoch'] = VInt(_epoch(st) + 1)
    return [Outcome('normal', st, m)]


def h_send(ex, recv, args, kwargs, st, fr, node):
    st.ghost['epoch'] = VInt(_epoch(st) + 1)
    return [Outcome('normal', st, fresh_opaque('sent'))]


def _snap(kind):
    def h(ex, recv, args, kwargs, st, fr, node):
        r = fresh_opaque(kind)
        src_ = ast.unparse(node.func.value) if isinstance(node.func, ast.Attribute) else ''
        if src_ == 'self._handshake_hash':
            st.assume(SNAP(r.t) == _epoch(st))
        return [Outcome('normal', st, r)]
    return h


def h_secureHMAC(ex, recv, args, kwargs, st, fr, node):
    r = fresh_opaque('hmac')
    th = st.env.get('transcript_hash')
    if th is not None and len(args) >= 2 and args[1] is th:
        st.ghost['fin_expected'] = r
    return [Outcome('normal', st, r)]


def h_changeWriteState(ex, recv, args, kwargs, st, fr, node):
    fm, ex_ = st.ghost.get('fin_msg'), st.ghost.get('fin_expected')
    if gb(st, 'got_fin') is not None and 'cws_checked' not in st.ghost and fm is not None:
        OB(ex, st, 'finished:own-flight-starts-only-after-the-server-Finished-equalled-the-HMAC-over-the-transcript',
           ex_ is not None and attr('verify_data', fm) == T(ex_))
        st.ghost['cws_checked'] = VBool(z3.BoolVal(True))
    return [Outcome('normal', st, fresh_opaque('none'))]


SPEC = M2Spec(hooks={'_sendError': h_sendError, '_getMsg': h_getMsg, '_sendMsg': h_send, '_sendMsgs': h_send,
                     '_queue_message': h_send, 'copy': _snap('hh_snapshot'), 'digest': _snap('hh_digest'),
                     'secureHMAC': h_secureHMAC, '_changeWriteState': h_changeWriteState},
              pure={'getExtension', 'toRepr', 'getHash', 'getPadding', 'isinstance', 'len', 'HKDF_expand_label',
                    'derive_secret', 'decode', '_getPRFParams', 'getattr', 'calcVerifyBytes'})


def _check(api):
    api.oblige(api.entry, 'has-normal-exit', len(api.normal_exits()) >= 1)
    api.oblige(api.entry, 'cover:five-_getMsg-sites-reached', COUNT['getmsg'] >= 5)


m2task('_clientTLS13Handshake/server-flight-order', ('C06', 'C04'), TC + '_clientTLS13Handshake', SPEC, check=_check,
       opts={'ground_feasible': True},
       doc='TLS 1.3 client: EncryptedExtensions, [CertificateRequest], Certificate, CertificateVerify, Finished (or EE, Finished '
           'with a PSK) are awaited in exactly this order; CertificateVerify and Finished are checked against the transcript as '
           'it stood right before each of them; the client flight starts only after the server Finished compared equal')
