"""M1 contracts for the 0/1-yielding I/O generators (additive; imported by contract modules that need it).

tlslite's record-socket layer is written as generators that yield 0 ("want read") or 1 ("want write")
while the transport would block and finish either
  * by yielding ONE completion value that is not an int (a bytearray, a header object, a tuple), after which
    every consumer in /repo leaves its `for` loop with `break` and drops the generator   (style 'yield'), or
  * by returning (StopIteration), consumers pass the yields through                        (style 'return').

`gen_contract(qual, each=..., final='yield'|'return', final_type=T..., **contract-kw)` registers an ordinary
contract with this reading of the body:

  verification of the generator itself (Executor.do_yield hook)
    - a yield of a non-int value under style 'yield' ENDS the path (the consumer breaks: code after it never runs);
      `ns.result` in `ensures` is, as for every generator, the VList of the values yielded on the path: its last
      item is the completion value (a path that ends without one fails `ensures`);
    - every other yield gets the obligation `yield-each@L<line>`: each(ns, value) -- e.g. "only 0 is yielded before
      completion".  Because it is stated per yield SITE it also covers the yields of loop iterations that a loop cut
      (LoopSpec) abstracts away.  `ns.old` there is the entry state of the function.

  use at a call site `for x in self.g(...): <body>` (Registry.generator_loop hook)
    - calling g returns a handle; the `for` statement is executed as
        (a) arbitrary intermediate round: state = caller state with g's `modifies` havocked, x = fresh int with
            each(x) assumed, body executed once; the body may only yield / continue (it must not change variables
            or the heap, must not break or return) -- its yields get the CALLER's `yield-each` obligations;
        (b) g's contract applied as for a plain call (requires obligation, raise outcomes, ensures assumed);
            style 'yield': body executed once more with x = completion value, it must `break`;
            style 'return': the loop ends normally (for-else runs).
      The yields of round (a) are not appended to the caller's path (they are covered by the per-site obligation).

Also installed (small gaps of the executor needed by the same code):
  - `e.args` of a caught exception value (VExc) -> tuple of its constructor arguments;
  - `del x[lo:hi]` on a byte/int sequence held in a name or attribute (== `x[lo:hi] = b''`).
"""
import ast

import z3

from . import smt, source
from .values import (V, VInt, VBool, VNone, VSeq, VTuple, VList, VObj, VPy, VExc, Unsupported, truthy, fresh_name,
                     same_value, _lift)
from .state import T
from .executor import Executor, Outcome, _target_names
from .contract import Contract, Registry, NS, REG, contract as _contract


class GenSpec(object):
    def __init__(self, each, final='yield', post_apply=None):
        assert final in ('yield', 'return')
        self.each = each            # lambda ns, v -> VBool: what every non-completion yield satisfies
        self.final = final
        # post_apply(ex, st, env): run on the normal outcome at a call site.  Only for facts that `ensures` states but
        # that the havoc-and-assume scheme cannot express because the KIND of a field changes (int -> None): the
        # hook stores the value, the contract's own verification proves it (keep the two in step).
        self.post_apply = post_apply

    def is_final(self, v):
        return self.final == 'yield' and not isinstance(v, (VInt, VBool))


class TYields(T):
    """result type of a generator contract: the list of yielded values as seen by `ensures` at a call site --
    only the completion value (style 'yield') or nothing (style 'return')"""

    def __init__(self, final_t):
        T.__init__(self, 'yields')
        self.final_t = final_t

    def make(self, name, st, bv=None):
        return VList([self.final_t.make(name, st, bv)] if self.final_t is not None else [])


class GenCall(object):
    """value of a call `self.g(args)` of a generator under a gen_contract: nothing has happened yet"""

    def __init__(self, c, args, kwargs, node):
        self.c, self.args, self.kwargs, self.node = c, args, kwargs, node

    def __repr__(self):
        return 'GenCall(%s)' % self.c.name


def _defer(c, ex, args, kwargs, st, fr, node):
    return [Outcome('normal', st, VPy(GenCall(c, args, kwargs, node)))]


def final_of(ns):
    """the completion value inside `ensures` of a style-'yield' generator contract"""
    return ns.result.items[-1]


def gen_contract(qual, each, final='yield', final_type=None, ensures=None, setup=None, post_apply=None, assumed=False,
                 **kw):
    """assumed=True: the contract is NOT registered (no verification task, not applied by name): the caller installs
    it for an external callee with `assume_generator` and must list it as trusted."""
    spec = GenSpec(each, final, post_apply)

    def setup2(ex, st, ns):
        if setup is not None:
            setup(ex, st, ns)
        st.ghost['$gen_entry'] = st.fork()

    ens = ensures
    if final == 'yield':
        def ens(ns):                                    # noqa: F811
            r = ns.result
            if not (isinstance(r, VList) and r.items and spec.is_final(r.items[-1])):
                return VBool(z3.BoolVal(False))          # the generator ended without a completion value
            return ensures(ns) if ensures is not None else VBool(z3.BoolVal(True))
    if assumed:
        return Contract(qual, gen=spec, apply_fn=_defer, ensures=ens, setup=setup2,
                        result=TYields(final_type if final == 'yield' else None), **kw)
    return _contract(qual, gen=spec, apply_fn=_defer, ensures=ens, setup=setup2,
                     result=TYields(final_type if final == 'yield' else None), **kw)


def assume_generator(c):
    """install the unverified generator contract `c` as the model of the external callee c.qual"""
    def h(ex, args, kwargs, st, fr, node):
        return _defer(c, ex, args, kwargs, st, fr, node)
    REG.external[c.qual] = h
    REG.no_inline.add(c.qual)
    return c


# ------------------------------------------------------------------ verification side: yields
_prev_do_yield = Executor.do_yield


def _do_yield(self, ynode, st, fr):
    c = fr.contract
    g = getattr(c, 'gen', None) if c is not None else None
    if not isinstance(g, GenSpec) or fr.fs is None or fr.fs.qual != c.qual:
        return _prev_do_yield(self, ynode, st, fr)
    res = []
    for o in _prev_do_yield(self, ynode, st, fr):
        if o.kind != 'normal':
            res.append(o)
            continue
        v = o.st.yields[-1]
        if g.is_final(v):
            res.append(Outcome('return', o.st, v))        # the consumer breaks; the generator is never resumed
            continue
        entry = o.st.ghost.get('$gen_entry')
        ns = NS(self, o.st, fr, old=entry)
        self.oblige(o.st, 'yield-each@L%d' % ynode.lineno, truthy(_lift(g.each(ns, v))), kind='yield',
                    where=ynode.lineno)
        res.append(o)
    return res


Executor.do_yield = _do_yield


# ------------------------------------------------------------------ call-site side: for x in gen(...)
def _unchanged(pre, post, skip, what):
    for n, v in post.env.items():
        if n in skip or n.startswith('$'):
            continue
        if n not in pre.env or not same_value(v, pre.env[n]):
            raise Unsupported('%s: the loop body changes variable %r on an intermediate (0/1) value' % (what, n))
    for key, v in post.heap.items():
        if key[0] in post.fresh_objs and key[0] not in pre.fresh_objs:
            continue
        if key not in pre.heap or not same_value(v, pre.heap[key]):
            raise Unsupported('%s: the loop body changes heap field %r on an intermediate (0/1) value' % (what, key[1]))


_prev_generator_loop = Registry.generator_loop


def _generator_loop(reg, ex, node, it, st, fr):
    if not (isinstance(it, VPy) and isinstance(it.obj, GenCall)):
        return _prev_generator_loop(reg, ex, node, it, st, fr)
    g = it.obj
    c, spec = g.c, g.c.gen
    what = 'for over %s at line %d' % (c.name, node.lineno)
    tnames = set(_target_names(node.target))
    res = []
    # (a) arbitrary intermediate round
    mid = st.fork()
    fs = source.load(c.qual)
    env = ex.bind_params(fs, g.args, g.kwargs, mid, fr)
    c._havoc(ex, mid, env)
    v = VInt(z3.Int(fresh_name('mid_yield')))
    cst = mid.fork()
    cst.env = dict(env)
    pre_c = st.fork()
    pre_c.env = dict(env)
    mid.assume(truthy(_lift(spec.each(NS(ex, cst, fr, old=pre_c), v))))
    if ex.feasible(mid):
        pre_mid = mid.fork()
        for oa in ex.assign(node.target, v, mid, fr):
            if oa.kind != 'normal':
                res.append(oa)
                continue
            for ob in ex.exec_block(node.body, oa.st, fr):
                if ob.kind in ('normal', 'continue'):
                    _unchanged(pre_mid, ob.st, tnames, what)
                elif ob.kind == 'raise':
                    res.append(ob)
                else:
                    raise Unsupported('%s: the loop body leaves the loop (%s) on an intermediate (0/1) value'
                                      % (what, ob.kind))
    # (b) completion
    saved = c.apply_fn
    c.apply_fn = None
    try:
        outs = c.apply(ex, g.args, g.kwargs, st, fr, g.node)
    finally:
        c.apply_fn = saved
    for o in outs:
        if o.kind != 'normal':
            res.append(o)
            continue
        if spec.post_apply is not None:
            spec.post_apply(ex, o.st, env)
        if spec.final == 'yield':
            fv = o.val.items[-1]
            for oa in ex.assign(node.target, fv, o.st, fr):
                if oa.kind != 'normal':
                    res.append(oa)
                    continue
                for ob in ex.exec_block(node.body, oa.st, fr):
                    if ob.kind == 'break':
                        res.append(Outcome('normal', ob.st))
                    elif ob.kind in ('normal', 'continue'):
                        raise Unsupported('%s: the consumer resumes the generator after its completion value' % what)
                    else:
                        res.append(ob)
        else:
            s = o.st
            for n in tnames:                     # last intermediate value, or untouched when there was none
                if isinstance(s.env.get(n), VInt):
                    s.env[n] = VInt(z3.Int(fresh_name(n)))
                else:
                    s.env.pop(n, None)           # possibly unbound / of two kinds: reading it is reported as NameError
            if node.orelse:
                res.extend(ex.exec_block(node.orelse, s, fr))
            else:
                res.append(Outcome('normal', s))
    return res


Registry.generator_loop = _generator_loop


# ------------------------------------------------------------------ small executor gaps
_prev_getattr = Executor.getattr_


def _getattr(self, v, name, st, fr, node=None):
    if isinstance(v, VExc) and name == 'args':
        return [Outcome('normal', st, VTuple(list(v.args)))]
    return _prev_getattr(self, v, name, st, fr, node)


Executor.getattr_ = _getattr

_prev_s_delete = Executor.s_Delete


def _s_delete(self, node, st, fr):
    if len(node.targets) == 1 and isinstance(node.targets[0], ast.Subscript) and \
            isinstance(node.targets[0].slice, ast.Slice) and node.targets[0].slice.step is None:
        t = node.targets[0]
        probe = self.eval(t.value, st.fork(), fr)
        if len(probe) == 1 and probe[0].kind == 'normal' and isinstance(probe[0].val, VSeq):
            b = probe[0].val
            empty = VSeq(smt.s_empty, b.elem, b.pytype)
            return self.assign_subscript(t, empty, st, fr)     # del x[lo:hi]  ==  x[lo:hi] = b''
    return _prev_s_delete(self, node, st, fr)


Executor.s_Delete = _s_delete


# ------------------------------------------------------------------ lemma behind values.int_binop('|') shift-or fact
_SHIFT_OR_OK = [None]


def prove_shift_or_lemma():
    """(t << k) | q == (t << k) + q  for 0 <= t < 2^(32-k), 0 <= q < 2^k, k = 1..16, in 48-bit BV arithmetic
    (for larger t the identity holds for unbounded ints by the same disjoint-bits argument; the executor states
    it for t >= 0)."""
    if _SHIFT_OR_OK[0]:
        return True
    W = 48
    t, q = z3.BitVecs('so_t so_q', W)
    for k in range(1, 17):
        s = z3.Solver()
        s.set('timeout', 20000)
        s.add(z3.ULT(t, z3.BitVecVal(1 << 30, W)), z3.ULT(q, z3.BitVecVal(1 << k, W)))
        s.add(((t << k) | q) != ((t << k) + q))
        if s.check() != z3.unsat:
            raise RuntimeError('shift-or lemma not proved for k=%d' % k)
    _SHIFT_OR_OK[0] = True
    return True


prove_shift_or_lemma()


def apply_now(ex, qual, args, st, fr, kwargs=None):
    """Scenario helper: run a generator under a gen_contract to completion from state `st` by its contract
    (requires obligation, raise outcomes, normal outcome whose value is the VList described in TYields)."""
    c = ex.reg.contracts[qual][0]
    saved = c.apply_fn
    c.apply_fn = None
    try:
        outs = c.apply(ex, args, kwargs or {}, st, fr, None)
    finally:
        c.apply_fn = saved
    if c.gen.post_apply is not None:
        env = ex.bind_params(source.load(c.qual), args, kwargs or {}, st, fr)
        for o in outs:
            if o.kind == 'normal':
                c.gen.post_apply(ex, o.st, env)
    return outs
