"""Hand reproductions behind DESIGN.md section 4 (F1,F2,F3,F5,F6,F7,F10,F13).
Not a check: run with  cd /repo && /venv/bin/python /verif/design_probes/pure_function_probes.py
"""
import hmac, hashlib, zlib

def f1():
    from tlslite.utils.constanttime import ct_check_cbc_mac_and_pad
    from tlslite.mathtls import createMAC_SSL
    key = b'k' * 20
    for seq in range(100000):
        seqb = bytearray(seq.to_bytes(8, 'big'))
        m = hmac.new(key, digestmod=hashlib.sha1)
        m2 = m.copy(); m2.update(bytes(seqb) + bytes([23, 3, 3, 0, 0]))
        d = m2.digest()
        if d[-1] == 1:
            data = bytearray(d) + bytearray([1])   # 21 bytes: pad says 2 bytes, 19 left < 20 = MAC
            print('F1 TLS1.2 seq', seq, '->', ct_check_cbc_mac_and_pad(data, m, seqb, 23, (3, 3), 16))
            break
    m = createMAC_SSL(bytearray(key), digestmod=hashlib.sha1)
    seqb = bytearray(8); m2 = m.copy(); m2.update(bytes(seqb) + bytes([23, 0, 0])); d = m2.digest()
    for p in (1, 5, 16):
        print('F1 SSLv3 p', p, '->', ct_check_cbc_mac_and_pad(bytearray(d) + bytearray([p]), m, seqb, 23, (3, 0), 16))

def f2():
    from tlslite.utils.cryptomath import HKDF_expand
    for L in (254 * 32, 254 * 32 + 1, 255 * 32):
        try: print('F2', L, len(HKDF_expand(bytearray(32), bytearray(b'i'), L, 'sha256')))
        except Exception as e: print('F2', L, type(e).__name__, e)

def f3():
    from tlslite.handshakesettings import HandshakeSettings
    s = HandshakeSettings(); before = list(s.cipherImplementations); s.validate()
    print('F3', before, '->', s.cipherImplementations)

def f5():
    import tlslite.sessioncache as m
    now = [0.0]; m.time.time = lambda: now[0]
    class S:
        def valid(self): return True
    c = m.SessionCache(maxEntries=5, maxAge=100)
    c[b'A'] = S(); now[0] = 50; c[b'A'] = S(); now[0] = 120
    try: c[b'A']; print('F5 A found')
    except KeyError: print('F5 A lost although 70s old')
    c[b'B'] = S(); now[0] = 160
    try: c[b'B']; print('F5 B found')
    except KeyError: print('F5 B unreachable although 40s old; cache stuck')

def f6():
    from tlslite.utils.cryptomath import getRandomPrime, numBits
    from tlslite.utils.python_rsakey import Python_RSAKey
    while True:
        p = getRandomPrime(513); q = getRandomPrime(512)
        if numBits(p * q) == 1025: break
    k = Python_RSAKey(p * q, 65537, p=p, q=q)
    h = bytearray(hashlib.sha256(b'x').digest())
    try: k.sign(h, 'pss', 'sha256', 32); print('F6 signed')
    except Exception as e: print('F6', type(e).__name__, e)

def f7():
    from tlslite.messages import ServerKeyExchange
    from tlslite.utils.codec import Parser
    from tlslite.constants import CipherSuite
    body = bytearray([1, 0, 23, 1, 4]); msg = bytearray([0, 0, len(body)]) + body
    try: ServerKeyExchange(CipherSuite.TLS_ECDH_ANON_WITH_AES_128_CBC_SHA, (3, 3)).parse(Parser(msg))
    except BaseException as e: print('F7', type(e).__name__)

def f10():
    from tlslite.x509 import X509
    from tlslite.utils.pem import dePem
    der = bytearray(dePem(open('/repo/tests/serverX509Cert.pem').read(), 'CERTIFICATE'))
    i = der.rfind(bytes([0x2a, 0x86, 0x48, 0x86, 0xf7, 0x0d, 0x01, 0x01])); der[i + 8] = 0x63
    try: X509().parseBinary(der)
    except BaseException as e: print('F10', type(e).__name__)

def f13():
    c = zlib.compress(b'\0' * 50_000_000)
    print('F13', len(c), '->', len(zlib.decompress(c, 15, 100)))

if __name__ == '__main__':
    for f in (f1, f2, f3, f5, f6, f7, f10, f13): f()
