"""F45 (C13/C17): server-side session-ID resumption.  A resumption attempt that fails with a fatal alert (client Finished
does not verify) leaves the cached session resumable: RFC 5246 7.2.2 "any connection terminated with a fatal alert MUST
NOT be resumed"; the property says a session invalidated by a fatal error never resumes.
Run with PYTHONPATH=<tree>; exit 1 = the session was resumed after the failed attempt."""
import os, socket, threading, sys, copy
import tlslite
from tlslite.api import TLSConnection, HandshakeSettings, X509CertChain, X509, parsePEMKey, SessionCache
ROOT = os.path.dirname(os.path.dirname(os.path.abspath(tlslite.__file__)))
cert = X509CertChain([X509().parse(open(os.path.join(ROOT, 'tests', 'serverX509Cert.pem')).read())])
key = parsePEMKey(open(os.path.join(ROOT, 'tests', 'serverX509Key.pem')).read(), private=True)
cache = SessionCache()


def connect(session):
    a, b = socket.socketpair(); a.settimeout(5); b.settimeout(5)
    out = {}
    def server():
        s = TLSConnection(b)
        st = HandshakeSettings(); st.maxVersion = (3, 3)
        try:
            s.handshakeServer(certChain=cert, privateKey=key, settings=st, sessionCache=cache)
            out['server'] = 'ok resumed=%s' % s.resumed
            s.write(b'x'); s.close()
        except Exception as e:
            out['server'] = 'error %s' % type(e).__name__
    t = threading.Thread(target=server); t.start()
    c = TLSConnection(a)
    st = HandshakeSettings(); st.maxVersion = (3, 3)
    try:
        c.handshakeClientCert(session=session, settings=st)
        c.read(1, 1)
        out['client'] = 'ok resumed=%s' % c.resumed
        sess = c.session
        c.close()
    except Exception as e:
        out['client'] = 'error %s' % type(e).__name__
        sess = None
    a.close(); t.join()
    return sess, out

s1, o1 = connect(None); print('1 full handshake     :', o1)
s2, o2 = connect(s1); print('2 honest resumption  :', o2)
bad = copy.copy(s1); bad.masterSecret = bytearray(48); bad.resumable = True
_, o3 = connect(bad); print('3 forged resumption  :', o3)
s4, o4 = connect(s1); print('4 after the fatal one:', o4)
resumed = 'resumed=True' in o4.get('server', '')
print('FAIL: session resumed after a resumption attempt that ended in a fatal alert' if resumed else 'PASS')
sys.exit(1 if resumed else 0)
