"""Index-range views of composite symbolic iterables: reversed(range/seq), zip, enumerate.
Registered as a loop-source provider (see Executor.loop_source)."""
import z3

from .smt import slen, sat
from .values import VInt, VSeq, VTuple, VPy, Unsupported, fresh_name
from .contract import REG


class RevObj(object):
    """reversed(x) for a symbolic range or sequence"""

    def __init__(self, inner):
        self.inner = inner


def _view(v):
    from .executor import RangeObj, ZipObj, EnumObj
    if isinstance(v, VPy) and isinstance(v.obj, RangeObj):
        r = v.obj
        step = r.step.concrete()
        if step == 1:
            cnt = z3.If(r.stop.t > r.start.t, r.stop.t - r.start.t, 0)
            return cnt, (lambda k: VInt(r.start.t + k)), []
        if step == -1:
            cnt = z3.If(r.start.t > r.stop.t, r.start.t - r.stop.t, 0)
            return cnt, (lambda k: VInt(r.start.t - k)), []
        return None
    if isinstance(v, VSeq):
        return slen(v.t), (lambda k, v=v: VInt(sat(v.t, k))), ([v] if v.elem == 'byte' else [])
    if isinstance(v, VPy) and isinstance(v.obj, RevObj):
        iv = _view(v.obj.inner)
        if iv is None:
            return None
        cnt, at, bs = iv
        return cnt, (lambda k: at(cnt - 1 - k)), bs
    if isinstance(v, VPy) and isinstance(v.obj, ZipObj):
        ivs = [_view(x) for x in v.obj.parts]
        if any(i is None for i in ivs):
            return None
        cnt = ivs[0][0]
        for c, _, _ in ivs[1:]:
            cnt = z3.If(c < cnt, c, cnt)
        return cnt, (lambda k: VTuple([a(k) for _, a, _ in ivs])), sum([b for _, _, b in ivs], [])
    if isinstance(v, VPy) and isinstance(v.obj, EnumObj):
        iv = _view(v.obj.inner)
        if iv is None:
            return None
        return iv[0], (lambda k: VTuple([VInt(k + v.obj.start), iv[1](k)])), iv[2]
    return None


class ViewSource(object):
    def __init__(self, cnt, at, byte_seqs, orig=None):
        self.orig = orig
        self.lo = VInt(0)
        self.hi = VInt(z3.simplify(cnt))
        self._at = at
        self._bytes = byte_seqs

    def elem_at(self, ex, st, i):
        for b in self._bytes:
            kk = z3.Int(fresh_name('bk'))
            st.assume(z3.ForAll([kk], z3.Implies(z3.And(0 <= kk, kk < slen(b.t)),
                                                 z3.And(0 <= sat(b.t, kk), sat(b.t, kk) <= 255)),
                                patterns=[sat(b.t, kk)]))
        return self._at(i)

    def done(self, ex, st):
        pass

    def static_items(self, ex, st):
        from .executor import ZipObj, EnumObj
        v = self.orig
        if isinstance(v.obj, ZipObj):
            ls = [ex.iter_items(x, st) for x in v.obj.parts]
            if any(l is None for l in ls):
                return None
            return [VTuple(list(t)) for t in zip(*ls)]
        if isinstance(v.obj, EnumObj):
            l = ex.iter_items(v.obj.inner, st)
            if l is None:
                return None
            return [VTuple([VInt(i + v.obj.start), x]) for i, x in enumerate(l)]
        if isinstance(v.obj, RevObj):
            l = ex.iter_items(v.obj.inner, st)
            return None if l is None else list(reversed(l))
        return None


def provider(ex, v, st):
    from .executor import ZipObj, EnumObj
    if isinstance(v, VPy) and isinstance(v.obj, (RevObj, ZipObj, EnumObj)):
        # only symbolic-length composites: statically known ones are unrolled by iter_items
        iv = _view(v)
        if iv is None:
            return None
        return ViewSource(*iv, orig=v)
    return None


if not hasattr(REG, 'loop_sources'):
    REG.loop_sources = []
REG.loop_sources.append(provider)
