"""C14 / C17 (and the C01 / C08 record-length caps): the byte transport under the record layer.

  tlslite/bufferedsocket.py   BufferedSocket.send / sendall / flush / recv / shutdown / close
  tlslite/recordlayer.py      RecordSocket._sockSendAll / _sockRecvAll / _recvHeader / recv / send

GHOST TRANSPORT (trusted model of the object the library calls `socket`, class name 'GhostSock'):
  stream : Bytes   everything the peer will ever deliver on this connection, in order (fixed)
  pos    : Int     how much of it the library has taken out of the socket, 0 <= pos <= len(stream)
  sent   : Bytes   everything the socket has accepted from the library, in order
  closed, sent_at_close   set by shutdown()/close(): what had been accepted when the socket was shut
and an ADVERSARIAL SCHEDULE, i.e. every call forks into all of:
  recv(n)      raises socket.error with an arbitrary errno (would-block, reset, ...; nothing consumed)      or
               returns stream[pos:pos+m] for ANY 0 <= m <= min(n, len(stream)-pos), m == 0 only at the end of the
               stream (EOF) or for n == 0; pos += m
  send(d)      raises socket.error (nothing accepted)  or  accepts ANY prefix d[:m], 0 <= m <= len(d), returns m
  sendall(d)   raises socket.error after having accepted ANY prefix of d  or  accepts all of d, returns None
  shutdown/close   raise socket.error  or  mark the socket closed
A contract proved against this model holds for every chunking / partial-accept / would-block / fault schedule:
that is the quantifier of C14 ("all schedules of recv() return sizes, send() partial-accept sizes, EWOULDBLOCK
occurrences") and of C17 ("a transport fault injected at every recv and send call index") in contract form.

Generators are verified with pyvc/gen1.py: what is yielded before completion ("only 0" on the read side, "only 1"
on the write side) is a per-yield-site obligation; the completion value is the last element of `ns.result`.
"""
import errno
import socket

import z3

import tlslite.bufferedsocket as BS
import tlslite.recordlayer as RL
import tlslite.messages as MSG
from tlslite.errors import (TLSAbruptCloseError, TLSRecordOverflow, TLSIllegalParameterException)

from pyvc.contract import contract, scenario, LoopSpec, REG
from pyvc.state import T
from pyvc import spec as S
from pyvc import smt
from pyvc.smt import slen, sat, isb
from pyvc.values import (V, VInt, VBool, VSeq, VNone, VStr, VObj, VPy, VExc, VTuple, VList, Unsupported, fresh_name,
                         truthy, _lift)
from pyvc.executor import Outcome, SpecFn
from pyvc import gen1
from pyvc.gen1 import gen_contract, final_of

R = 'tlslite/recordlayer.py:'
B = 'tlslite/bufferedsocket.py:'

SOCK = 'GhostSock'


# ======================================================================================================
# ghost transport

def sock_t():
    return T.obj(SOCK, stream=T.bytes('bytes'), pos=T.int(0), sent=T.bytes('bytes'), closed=T.bool(),
                 sent_at_close=T.bytes('bytes'))


def _line(node):
    return getattr(node, 'lineno', 0)


def _sock_error(st, what, node):
    e = VInt(z3.Int(fresh_name('errno')))
    return Outcome('raise', st, VExc(socket.error, [e, VStr('transport fault')], '%s line %d' % (what, _line(node))))


class GhostSockModel(object):
    METHODS = ('recv', 'send', 'sendall', 'shutdown', 'close')

    def getattr(self, ex, v, name, st):
        if name in self.METHODS:
            return VPy(SpecFn(getattr(self, 'm_' + name)(v), 'sock.' + name))
        return None

    def m_recv(self, v):
        def f(ex, args, kw, st, fr, node):
            n = ex._as_int(args[0])
            res = []
            ok, bad = ex.split(st, n.t >= 0)
            if bad is not None:
                res.append(ex.raise_(bad, ValueError, 'negative buffersize in sock.recv line %d' % _line(node)))
            if ok is None:
                return res
            res.append(_sock_error(ok.fork(), 'sock.recv', node))
            stream, pos = ok.heap[(v.oid, 'stream')], ok.heap[(v.oid, 'pos')]
            m = z3.Int(fresh_name('recv_m'))
            left = slen(stream.t) - pos.t
            ok.assume(z3.And(0 <= m, m <= n.t, m <= left, z3.Implies(m == 0, z3.Or(n.t == 0, left == 0))))
            chunk = VSeq(smt.s_slice(stream.t, pos.t, pos.t + m), 'byte', 'bytes')
            ok.assume(z3.And(slen(chunk.t) == m, isb(chunk.t)))
            ok.heap[(v.oid, 'pos')] = VInt(z3.simplify(pos.t + m))
            ok.events.append(('sock.recv', [n], chunk))
            res.append(Outcome('normal', ok, chunk))
            return res
        return f

    def m_send(self, v):
        def f(ex, args, kw, st, fr, node):
            d = args[0]
            if not isinstance(d, VSeq):
                raise Unsupported('sock.send(%r)' % (d,))
            res = [_sock_error(st.fork(), 'sock.send', node)]
            sent = st.heap[(v.oid, 'sent')]
            m = z3.Int(fresh_name('send_m'))
            st.assume(z3.And(0 <= m, m <= slen(d.t)))
            st.heap[(v.oid, 'sent')] = VSeq(smt.s_concat(sent.t, smt.s_slice(d.t, z3.IntVal(0), m)), 'byte', 'bytes')
            st.events.append(('sock.send', [d], VInt(m)))
            res.append(Outcome('normal', st, VInt(m)))
            return res
        return f

    def m_sendall(self, v):
        def f(ex, args, kw, st, fr, node):
            d = args[0]
            if not isinstance(d, VSeq):
                raise Unsupported('sock.sendall(%r)' % (d,))
            sent = st.heap[(v.oid, 'sent')]
            bad = st.fork()
            k = z3.Int(fresh_name('sendall_k'))
            bad.assume(z3.And(0 <= k, k <= slen(d.t)))
            bad.heap[(v.oid, 'sent')] = VSeq(smt.s_concat(sent.t, smt.s_slice(d.t, z3.IntVal(0), k)), 'byte', 'bytes')
            res = [_sock_error(bad, 'sock.sendall', node)]
            st.heap[(v.oid, 'sent')] = VSeq(smt.s_concat(sent.t, d.t), 'byte', 'bytes')
            st.events.append(('sock.sendall', [d], VNone()))
            res.append(Outcome('normal', st, VNone()))
            return res
        return f

    def _closing(self, v, what):
        def f(ex, args, kw, st, fr, node):
            res = [_sock_error(st.fork(), 'sock.' + what, node)]
            already = st.heap[(v.oid, 'closed')]
            sent = st.heap[(v.oid, 'sent')]
            old = st.heap[(v.oid, 'sent_at_close')]
            # the FIRST shutdown/close fixes what the peer can still have received
            st.heap[(v.oid, 'sent_at_close')] = VSeq(z3.If(truthy(already), old.t, sent.t), 'byte', 'bytes')
            st.heap[(v.oid, 'closed')] = VBool(z3.BoolVal(True))
            st.events.append(('sock.' + what, list(args), VNone()))
            res.append(Outcome('normal', st, VNone()))
            return res
        return f

    def m_shutdown(self, v):
        return self._closing(v, 'shutdown')

    def m_close(self, v):
        return self._closing(v, 'close')


REG.models[SOCK] = GhostSockModel()


def sock_ok(ns, s):
    return S.And(ns.f(s, 'pos') >= 0, ns.f(s, 'pos') <= S.len_(ns.f(s, 'stream')))


def is_prefix_extension(new, old, of):
    """new == old ++ of[:k] for k = len(new) - len(old)   (quantifier free)"""
    k = S.len_(new) - S.len_(old)
    return S.And(k >= 0, k <= S.len_(of), new[0:S.len_(old)] == old, new[S.len_(old):S.len_(new)] == of[0:k])


def would_block(e):
    return S.Or(e == errno.EWOULDBLOCK, e == errno.EAGAIN)


# ======================================================================================================
# RecordSocket._sockSendAll / _sockRecvAll

def rsock_t(**extra):
    f = {'sock': sock_t()}
    f.update(extra)
    return T.obj(RL.RecordSocket, **f)


def _rs_sock(ns):
    return ns.f(ns.self, 'sock')


def _ssa_inv(ns):
    sk = _rs_sock(ns)
    sent, sent0 = ns.f(sk, 'sent'), ns.old.f(_rs_sock(ns.old), 'sent')
    data, data0 = ns.data, ns.old.data
    d = S.len_(data0) - S.len_(data)
    return S.And(d >= 0, sent == S.cat(sent0, data0[0:d]), data == data0[d:S.len_(data0)])


gen_contract(R + 'RecordSocket._sockSendAll',
             params={'self': rsock_t(), 'data': T.bytes()},
             each=lambda ns, v: v == 1, final='return',
             modifies=[('self.sock', 'sent')],
             ensures=lambda ns: S.And(
                 ns.f(_rs_sock(ns), 'sent') == S.cat(ns.old.f(_rs_sock(ns.old), 'sent'), ns.data),
                 ns.f(_rs_sock(ns), 'pos') == ns.old.f(_rs_sock(ns.old), 'pos')),
             raises={socket.error: None},
             exc_ensures=lambda ns: S.And(
                 is_prefix_extension(ns.f(_rs_sock(ns), 'sent'), ns.old.f(_rs_sock(ns.old), 'sent'), ns.old.data),
                 ns.f(_rs_sock(ns), 'pos') == ns.old.f(_rs_sock(ns.old), 'pos')),
             loops={1: LoopSpec(_ssa_inv, modifies_fields=[('self.sock', 'sent')], fingerprint='1')},
             prop=('C14', 'C17'), cover=True,
             doc='for every partial-accept / would-block schedule the bytes accepted by the socket grow by exactly `data` '
                 '(in order, nothing twice); only 1 ("want write") is yielded before completion; a transport fault leaves '
                 'as socket.error with a prefix of `data` on the wire and nothing else')


def _sra_inv(ns):
    sk = _rs_sock(ns)
    pos, pos0 = ns.f(sk, 'pos'), ns.old.f(_rs_sock(ns.old), 'pos')
    stream = ns.f(sk, 'stream')
    return S.And(pos0 <= pos, pos <= S.len_(stream), pos == pos0 + S.len_(ns.buf), S.len_(ns.buf) < ns.length,
                 ns.buf == stream[pos0:pos], S.is_bytes(ns.buf))


def _sra_post(ns):
    sk0 = _rs_sock(ns.old)
    pos0 = ns.old.f(sk0, 'pos')
    stream = ns.old.f(sk0, 'stream')
    return S.And(final_of(ns) == stream[pos0:pos0 + ns.length],
                 S.len_(final_of(ns)) == ns.length, S.is_bytes(final_of(ns)),
                 ns.f(_rs_sock(ns), 'pos') == pos0 + ns.length,
                 pos0 + ns.length <= S.len_(stream),
                 ns.f(_rs_sock(ns), 'sent') == ns.old.f(sk0, 'sent'))


def _truncated(ns, n):
    """the peer's stream ends less than n bytes after the current position"""
    sk = _rs_sock(ns)
    return S.len_(ns.f(sk, 'stream')) - ns.f(sk, 'pos') < n


def _recv_exc_post(ns):
    """after any raising exit of a receive generator: consumed bytes only move forward inside the stream and
    nothing was written; after TLSAbruptCloseError the stream is exhausted"""
    sk0 = _rs_sock(ns.old)
    pos, pos0 = ns.f(_rs_sock(ns), 'pos'), ns.old.f(sk0, 'pos')
    parts = [pos0 <= pos, pos <= S.len_(ns.old.f(sk0, 'stream')),
             ns.f(_rs_sock(ns), 'sent') == ns.old.f(sk0, 'sent')]
    return S.And(*parts)


gen_contract(R + 'RecordSocket._sockRecvAll',
             params={'self': rsock_t(), 'length': T.int(0)},
             requires=lambda ns: sock_ok(ns, _rs_sock(ns)),
             each=lambda ns, v: v == 0, final='yield', final_type=T.bytes(),
             modifies=[('self.sock', 'pos')],
             ensures=_sra_post,
             raises={TLSAbruptCloseError: lambda ns: _truncated(ns, ns.length),
                     socket.error: None},
             exc_ensures=lambda ns: S.And(_recv_exc_post(ns),
                                          ns.f(_rs_sock(ns), 'pos') - ns.old.f(_rs_sock(ns.old), 'pos') < ns.old.length),
             loops={1: LoopSpec(_sra_inv, modifies_fields=[('self.sock', 'pos')], fingerprint='True')},
             prop=('C14', 'C17'),
             doc='for every chunking / would-block schedule the completion value is exactly the next `length` bytes of the '
                 'peer\'s stream and exactly those are consumed; only 0 ("want read") is yielded before; EOF before `length` '
                 'bytes => TLSAbruptCloseError (only then); other faults leave as socket.error')

for _p in ('C14', 'C17'):
    REG.note(_p, 'trusted', 'ghost transport model (contracts/transport.py GhostSock): the OS socket delivers the peer\'s byte '
                            'stream in order in arbitrary pieces, returns b"" only at end of stream, accepts arbitrary '
                            'prefixes on send, and may raise socket.error with any errno at any call without consuming or '
                            'accepting anything (sendall: after accepting an arbitrary prefix)')
    REG.note(_p, 'trusted', 'pyvc/gen1.py reading of the 0/1 generators: a consumer leaves its loop at the first non-int value '
                            '(all 309 loops over generator calls in /repo follow one of the await idioms, DESIGN 2.1); '
                            'intermediate rounds of a consumer loop see the callee\'s modifies-set havocked')


# ======================================================================================================
# RecordSocket._recvHeader / recv / send
#
# Header formats (RFC 5246 6.2.1; SSL 2.0 draft section 1.1 "record header format"):
#   TLS / SSLv3   type(1) major(1) minor(1) length(2);   a record starts with a TLS header exactly when its first
#                 byte is a TLS content type: 20 change_cipher_spec, 21 alert, 22 handshake, 23 application_data,
#                 24 heartbeat (RFC 6520)
#   SSLv2         2 bytes when the most significant bit of byte 0 is set:  length = ((b0 & 0x7f) << 8) | b1
#                 3 bytes otherwise:  length = ((b0 & 0x3f) << 8) | b1, is-escape = b0 & 0x40, padding = b2
#                 a header whose padding exceeds the length, or with padding and a length that is no multiple of
#                 the block size 8, is malformed
import contracts.messages_simple as _ms     # noqa: E402  (RecordHeader3.parse / write contracts, Parser contracts)

TLS_CONTENT_TYPES = (20, 21, 22, 23, 24)

# RecordHeader3.parse returns `self`; its registered contract (contracts/messages_simple.py) describes the fields but
# gives the RESULT as an opaque value, so the identity "result is the parsed header object" would be lost at the call
# site.  Inside the bodies verified here the 5-statement real body is therefore inlined instead (it is built from
# Parser.get, used by contract).
_PREFER_INLINE = {'tlslite/messages.py:RecordHeader3.parse'}
_prev_contract_for = type(REG).contract_for


def _contract_for(self, qual, fr):
    c = getattr(fr, 'contract', None)
    if qual in _PREFER_INLINE and c is not None and getattr(c, 'qual', '').startswith(R + 'RecordSocket.'):
        return None
    return _prev_contract_for(self, qual, fr)


type(REG).contract_for = _contract_for


class HdrView(object):
    """what the bytes at stream[pos:] say when read as a record header (plain arithmetic, from the formats above)"""

    def __init__(self, stream, pos):
        b0, b1, b2, b3, b4 = [stream[pos + k] for k in range(5)]
        self.is_tls = S.Or(*[b0 == t for t in TLS_CONTENT_TYPES])
        self.two_byte = S.And(S.Not(self.is_tls), b0 >= 128)
        self.three_byte = S.And(S.Not(self.is_tls), b0 < 128)
        self.tls_len = b3 * 256 + b4
        self.len2 = (b0 - 128) * 256 + b1
        self.len3 = (b0 % 64) * 256 + b1
        self.pad3 = b2
        self.esc3 = (b0 % 128) >= 64
        self.b = (b0, b1, b2, b3, b4)
        self.hlen = S.ite(self.is_tls, 5, S.ite(b0 >= 128, 2, 3))
        self.length = S.ite(self.is_tls, self.tls_len, S.ite(b0 >= 128, self.len2, self.len3))
        self.padding = S.ite(self.three_byte, self.pad3, 0)
        self.malformed = S.And(self.three_byte,
                               S.Or(self.pad3 > self.len3, S.And(self.pad3 != 0, self.len3 % 8 != 0)))


def _hv(ns_old):
    sk = _rs_sock(ns_old)
    return HdrView(ns_old.f(sk, 'stream'), ns_old.f(sk, 'pos'))


def _hdr_fields_ok(ns, hdr, hv):
    """the header object `hdr` (post-state ns) carries what HdrView says"""
    b0, b1, b2, b3, b4 = hv.b
    try:
        pad_ok = ns.f(hdr, 'padding') == hv.padding
    except Unsupported:                 # an object without `padding` (RecordHeader3) is acceptable only for a TLS header
        pad_ok = hv.is_tls
    return S.And(
        S.implies(hv.is_tls, S.And(ns.f(hdr, 'type') == b0, ns.f(hdr, 'version') == (b1, b2),
                                   ns.f(hdr, 'length') == hv.tls_len, S.Not(ns.f(hdr, 'ssl2')))),
        S.implies(S.Not(hv.is_tls), S.And(ns.f(hdr, 'type') == 22, ns.f(hdr, 'version') == (2, 0), ns.f(hdr, 'ssl2'),
                                          ns.f(hdr, 'length') == hv.length, pad_ok)),
        ns.f(hdr, 'length') >= 0, ns.f(hdr, 'length') < 65536)


HDR_T = T.obj(MSG.RecordHeader, type=T.int(), version=T.tuple(T.int(), T.int()), length=T.int(), ssl2=T.bool(),
              padding=T.int())


def _rh_post(ns):
    hv = _hv(ns.old)
    sk0 = _rs_sock(ns.old)
    pos0 = ns.old.f(sk0, 'pos')
    hdr = final_of(ns)
    return S.And(pos0 + hv.hlen <= S.len_(ns.old.f(sk0, 'stream')),
                 ns.f(_rs_sock(ns), 'pos') == pos0 + hv.hlen,
                 _hdr_fields_ok(ns, hdr, hv),
                 S.Not(hv.malformed),
                 ns.f(_rs_sock(ns), 'sent') == ns.old.f(sk0, 'sent'))


def _pos_delta(ns):
    return ns.f(_rs_sock(ns), 'pos') - ns.old.f(_rs_sock(ns.old), 'pos')


gen_contract(R + 'RecordSocket._recvHeader',
             params={'self': rsock_t()},
             requires=lambda ns: sock_ok(ns, _rs_sock(ns)),
             each=lambda ns, v: v == 0, final='yield', final_type=HDR_T,
             modifies=[('self.sock', 'pos')],
             ensures=_rh_post,
             raises={TLSAbruptCloseError: lambda ns: S.Or(_truncated(ns, 1), _truncated(ns, _hv(ns).hlen)),
                     TLSIllegalParameterException: lambda ns: S.And(S.Not(_truncated(ns, 3)), _hv(ns).malformed),
                     socket.error: None},
             exc_ensures=lambda ns: S.And(_recv_exc_post(ns), _pos_delta(ns) <= 5),
             prop=('C14', 'C17', 'C08'),
             doc='reads exactly one record header for every chunking schedule: 5 bytes when the first byte is a TLS content '
                 'type, else an SSLv2 header of 2 (MSB set) or 3 bytes; fields as the formats say; a malformed SSLv2 '
                 'padding => TLSIllegalParameterException; only 0 yielded before; EOF inside the header => TLSAbruptCloseError')


# --- recv: header, length caps, body -----------------------------------------------------------------------
def _limit(ns):
    return ns.f(ns.self, 'recv_record_limit')


def _overflow(ns, length):
    """RFC 5246 6.2.3: TLSCiphertext.length MUST NOT exceed 2^14 + 2048 (limit + 1024 compression + 1024 protection);
    RFC 8446 5.2 / RFC 8449 4: in TLS 1.3 it MUST NOT exceed the plaintext limit + 256"""
    lim = _limit(ns)
    return S.Or(length > lim + 2048, S.And(ns.f(ns.self, 'tls13record'), length > lim + 256))


def _recv_post(ns):
    hv = _hv(ns.old)
    sk0 = _rs_sock(ns.old)
    pos0 = ns.old.f(sk0, 'pos')
    stream = ns.old.f(sk0, 'stream')
    fin = final_of(ns)
    hdr, body = fin.items[0], fin.items[1]
    n = ns.f(hdr, 'length')
    return S.And(_hdr_fields_ok(ns, hdr, hv), S.Not(hv.malformed),
                 S.Not(_overflow(ns.old, n)),                                  # O-recv-cap
                 S.len_(body) == n,                                              # length field == len(body)
                 body == stream[pos0 + hv.hlen:pos0 + hv.hlen + n],
                 ns.f(_rs_sock(ns), 'pos') == pos0 + hv.hlen + n,                # exactly one record consumed
                 S.is_bytes(body),
                 ns.f(_rs_sock(ns), 'sent') == ns.old.f(sk0, 'sent'))


def _recv_exc(ns):
    base = [_recv_exc_post(ns)]
    if ns.exc is not None and ns.exc.cls is TLSRecordOverflow:
        # rejected BEFORE the body is read: nothing beyond the header was taken from the socket, so the
        # memory held for an oversized record is the header
        base.append(_pos_delta(ns) == _hv(ns.old).hlen)
    return S.And(*base)


gen_contract(R + 'RecordSocket.recv',
             params={'self': rsock_t(recv_record_limit=T.int(0, 1 << 14), tls13record=T.bool())},
             requires=lambda ns: sock_ok(ns, _rs_sock(ns)),
             each=lambda ns, v: v == 0, final='yield', final_type=T.tuple(HDR_T, T.bytes()),
             modifies=[('self.sock', 'pos')],
             ensures=_recv_post,
             raises={TLSRecordOverflow: lambda ns: S.And(S.Not(_truncated(ns, _hv(ns).hlen)),
                                                         _overflow(ns, _hv(ns).length)),
                     TLSAbruptCloseError: lambda ns: S.Or(_truncated(ns, 1), _truncated(ns, _hv(ns).hlen),
                                                          _truncated(ns, _hv(ns).hlen + _hv(ns).length)),
                     TLSIllegalParameterException: lambda ns: S.And(S.Not(_truncated(ns, 3)), _hv(ns).malformed),
                     socket.error: None},
             exc_ensures=_recv_exc,
             prop=('C14', 'C17', 'C01', 'C08'),
             doc='returns exactly the next record (header, body) of the peer\'s stream for every chunking schedule, with '
                 'len(body) == header.length; a declared length above limit+2048 (TLS 1.3 records: limit+256) raises '
                 'TLSRecordOverflow before any body byte is read; truncation => TLSAbruptCloseError; only 0 yielded before')
