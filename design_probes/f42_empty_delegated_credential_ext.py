"""F42 (C08): server configured with a delegated credential; ClientHello carries an EMPTY-BODIED delegated_credential
extension -> TypeError ('NoneType' object is not iterable) in _serverTLS13Handshake.
Run with PYTHONPATH=<tree>:/verif; exit 1 = undocumented exception."""
import sys, os, socket, threading
sys.path.insert(0, '/verif')
from specs.empty_ext import client_hello_bytes, ROOT
from tlslite.api import TLSConnection, HandshakeSettings, X509CertChain, X509, parsePEMKey
from tlslite.messages import ClientHello
from tlslite.extensions import TLSExtension
from tlslite.utils.codec import Parser
from tlslite.x509 import DelegatedCredential, Credential
from tlslite.constants import SignatureScheme
from tlslite.errors import TLSError, BaseTLSException

body = client_hello_bytes(HandshakeSettings())
ch = ClientHello().parse(Parser(body[1:]))
ch.extensions.insert(0, TLSExtension(extType=34).create(34, bytearray(0)))
cert = X509CertChain([X509().parse(open(os.path.join(ROOT, 'tests', 'serverX509Cert.pem')).read())])
key = parsePEMKey(open(os.path.join(ROOT, 'tests', 'serverX509Key.pem')).read(), private=True)
cred = Credential(valid_time=1000, dc_cert_verify_algorithm=SignatureScheme.rsa_pss_rsae_sha256,
                  subject_public_key_info=bytearray(b'\x30\x00'), bytes=bytearray(b'x'))
dc = DelegatedCredential(cred=cred, algorithm=SignatureScheme.rsa_pss_rsae_sha256, signature=bytearray(b's' * 64))
a, b = socket.socketpair(); a.settimeout(3); b.settimeout(3)
res = {}
def server():
    s = TLSConnection(b)
    try:
        s.handshakeServer(certChain=cert, privateKey=key, dc_key=key, del_cred=dc)
        res['r'] = 'completed'
    except (TLSError, BaseTLSException, socket.error) as e:
        res['r'] = 'documented: %r' % (e,)
    except Exception as e:
        import traceback; tb = traceback.extract_tb(e.__traceback__)[-1]
        res['r'] = 'UNDOCUMENTED %s: %s (%s:%d)' % (type(e).__name__, e, os.path.basename(tb.filename), tb.lineno)
t = threading.Thread(target=server); t.start()
m = ch.write()
try:
    a.sendall(bytes([22, 3, 1, len(m) >> 8, len(m) & 255]) + bytes(m)); a.recv(4096)
except Exception: pass
a.close(); t.join()
print(res['r'])
sys.exit(1 if res['r'].startswith('UNDOC') else 0)
