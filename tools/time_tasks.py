"""tools/time_tasks.py <PROP> [timeout_s]: run every task of a property in its own process, report wall time / timeouts."""
import subprocess, sys, time, json, os
sys.path.insert(0, '/verif')
prop = sys.argv[1]; tmo = int(sys.argv[2]) if len(sys.argv) > 2 else 300
from contracts import PROPS
mods = PROPS[prop]
code_list = "import importlib\nfor m in %r: importlib.import_module(m)\nfrom pyvc.contract import REG\nprint('\\n'.join(k for k in REG.task_keys() if %r in REG.task(k).prop))" % (mods, prop)
env = dict(os.environ, PYTHONPATH='/verif:/repo:/venv/lib/python3.12/site-packages')
keys = subprocess.run(['python3-vt', '-c', code_list], capture_output=True, text=True, env=env, timeout=300).stdout.strip().split('\n')
print(len(keys), 'tasks')
def run(k):
    code = "import importlib,time\nfor m in %r: importlib.import_module(m)\nfrom pyvc.contract import REG\nfrom pyvc import smt\nsmt.prove_bit_lemmas()\nt=time.time()\nr,m=REG.task(%r).verify(REG,120000)\nprint('RES',len(r),len([x for x in r if x['verdict']!='proved']),round(time.time()-t,1))" % (mods, k)
    t0 = time.time()
    try:
        p = subprocess.run(['python3-vt', '-c', code], capture_output=True, text=True, env=env, timeout=tmo)
        line = [l for l in p.stdout.split('\n') if l.startswith('RES')]
        return k, time.time() - t0, (line[0] if line else 'ERR ' + p.stderr[-200:])
    except subprocess.TimeoutExpired:
        return k, time.time() - t0, 'TIMEOUT'
from concurrent.futures import ThreadPoolExecutor
with ThreadPoolExecutor(12) as ex:
    for k, dt, res in ex.map(run, keys):
        if dt > 30 or not res.startswith('RES') or ' 0 ' not in res:
            print('%6.1fs %s %s' % (dt, res, k), flush=True)
print('done')
