"""F46 (C18): BaseDB.keys() (VerifierDB) raised TypeError for every database whose keys are bytes -- always the case for a
file-backed database on Python 3, and for in-memory ones filled with the byte-string user names the SRP handshake uses.
Run with PYTHONPATH=<tree>; exit 1 = internal error."""
import os, sys, tempfile
from tlslite.verifierdb import VerifierDB
bad = []
d = tempfile.mkdtemp()
for name, mk in (('in-memory/bytes', lambda: VerifierDB()), ('file-backed', lambda: VerifierDB(os.path.join(d, 'db')))):
    db = mk(); db.create()
    db[b'alice'] = VerifierDB.makeVerifier(b'alice', b'pw', 1024)
    try:
        k = db.keys()
        if [bytes(x) if not isinstance(x, str) else x.encode() for x in k] != [b'alice']:
            bad.append('%s: keys() == %r' % (name, k))
    except Exception as e:
        bad.append('%s: keys() raised %s: %s' % (name, type(e).__name__, e))
print('\n'.join(bad) if bad else 'PASS')
sys.exit(1 if bad else 0)
