"""Cross-property links: a task proved for one property also carries a clause of another property.  Importing this module
imports the owning modules and extends the `prop` tuple of the named tasks; every link says which clause it serves."""
import importlib

from pyvc.contract import REG


def also(task_key_substr, module, *props):
    importlib.import_module(module)
    n = 0
    for k in REG.task_keys():
        if task_key_substr in k:
            t = REG.task(k)
            t.prop = tuple(t.prop) + tuple(p for p in props if p not in t.prop)
            n += 1
    assert n >= 1, 'link target %r not found in %s' % (task_key_substr, module)


# C09 "HKDF-Expand-Label ... key derivation ... returns exactly the value defined by its standard": the RFC 8446 7.2 chain
# application_traffic_secret_N+1 is threaded through calcTLS1_3KeyUpdate_sender/_reciever (which secret is advanced, which
# pair is handed back)
also('RecordLayer.calcTLS1_3KeyUpdate_sender', 'contracts.m2_posthandshake', 'C09')
also('RecordLayer.calcTLS1_3KeyUpdate_reciever', 'contracts.m2_posthandshake', 'C09')
# C14 "handshake messages split across or packed into records in any way": the sender's fragmentation loop
# (concatenation of the fragments == the message, no empty fragment, fragment limit)
also('TLSRecordLayer._sendMsg[', 'contracts.sendmsg', 'C14')
# C08 "never raises an unrelated Python exception": the CBC unprotect paths leave only by TLSBadRecordMAC / TLSDecryptionFailed
also('RecordLayer._macThenDecrypt', 'contracts.recordlayer', 'C08')
also('RecordLayer._decryptThenMAC', 'contracts.recordlayer', 'C08')
also('RecordLayer._decryptStreamThenMAC', 'contracts.recordlayer', 'C08')
also('RecordLayer._decryptAndUnseal', 'contracts.recordlayer', 'C08')
# C08 / C17 "after such a failure ... the session is not resumable": Session.valid() is the gate every client handshake uses
also('Session.valid[', 'contracts.small_extras', 'C08', 'C17')
# C02 "taken from another key epoch ... is rejected": after a KeyUpdate the new epoch's key, iv AND the secret handed on for
# the next update all derive from the NEW secret (otherwise later epochs repeat an earlier key and old records verify again)
also('RecordLayer._calcTLS1_3KeyUpdate/rfc8446-7.2', 'contracts.m2_tls13_states', 'C02')
also('RecordLayer.calcTLS1_3KeyUpdate_sender', 'contracts.m2_posthandshake', 'C02')
also('RecordLayer.calcTLS1_3KeyUpdate_reciever', 'contracts.m2_posthandshake', 'C02')
# C08 "after such a failure the connection is closed, the session is not resumable": the received-alert branch of _getMsg
also('_getMsg/alert-branch', 'contracts.m2_getmsg', 'C08')
# C12 "preceded by the correct MAC": which digest and MAC length the record layer uses for a CBC suite (the check itself takes
# the MAC object as a parameter)
also('RecordLayer._getMacSettings', 'contracts.suites', 'C12')
also('RecordLayer._getHMACMethod', 'contracts.suites', 'C12')
# C20 "the MAC ... actually used on the wire are those denoted by the suite's IANA name": the SSLv3 MAC construction of the MD5 / SHA-1 suites
also('MAC_SSL.create', 'contracts.kdf', 'C20')
also('MAC_SSL.digest', 'contracts.kdf', 'C20')
# C06 "wrong-epoch message ... aborts": the early-data window (undecryptable records skipped) closes with the first record that
# is delivered; the unprotected-alert exception of TLS 1.3
also('recvRecord/delivery', 'contracts.m2_recordio', 'C06', 'C17')
# C19 "compatible settings connect" / C10 "any change to the message is rejected": snapshots of the transcript are faithful copies;
# a parsed ServerKeyExchange re-serialises (and hashes for the signature check) to the bytes received
also('HandshakeHashes.copy/completeness', 'contracts.settings_copy', 'C19')
also('ServerKeyExchange.writeParams/layout', 'contracts.ske_write', 'C10')
