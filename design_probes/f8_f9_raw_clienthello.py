from loop import *
from tlslite.messages import ClientHello, RecordHeader3
from tlslite.extensions import SNIExtension, TLSExtension
from tlslite.constants import CipherSuite, ContentType
from tlslite.utils.cryptomath import getRandomBytes
chain,key=creds()
def raw_client(build):
    a,b=socket.socketpair(); res={}
    def srv():
        c=TLSConnection(b)
        try: c.handshakeServer(certChain=chain, privateKey=key); res['s']='completed'
        except BaseException as e: res['s']=(type(e).__name__, str(e)[:80])
    t=threading.Thread(target=srv); t.start()
    ch=build(); data=ch.write()
    a.sendall(RecordHeader3().create((3,1),ContentType.handshake,len(data)).write()+data)
    t.join(5); a.close(); return res
def f9():
    sni=SNIExtension().create(serverNames=[SNIExtension.ServerName(1, bytearray(b'x'))])
    return ClientHello().create((3,3), getRandomBytes(32), bytearray(0), [CipherSuite.TLS_RSA_WITH_AES_128_CBC_SHA], extensions=[sni])
print('F9', raw_client(f9))
def f8():
    from tlslite.extensions import PreSharedKeyExtension, PskIdentity, SupportedVersionsExtension, PskKeyExchangeModesExtension
    psk=PreSharedKeyExtension().create([PskIdentity().create(bytearray(b''),0)],[bytearray(32)])
    exts=[SupportedVersionsExtension().create([(3,4)]), PskKeyExchangeModesExtension().create([0]), psk]
    return ClientHello().create((3,3), getRandomBytes(32), bytearray(0), [CipherSuite.TLS_AES_128_GCM_SHA256], extensions=exts)
print('F8', raw_client(f8))
