"""F43 (C08): TLS 1.2 ClientHello (no TLS 1.3 in supported_versions) carrying an empty-bodied pre_shared_key extension,
server with pskConfigs: the TLS 1.3 sanity block is skipped and _server_select_certificate iterates over None.
Run with PYTHONPATH=<tree>:/verif; exit 1 = undocumented exception."""
import sys
sys.path.insert(0, '/verif')
from specs.empty_ext import client_hello_bytes, serve
from tlslite.api import HandshakeSettings
from tlslite.messages import ClientHello
from tlslite.extensions import TLSExtension
from tlslite.utils.codec import Parser
c = HandshakeSettings(); c.maxVersion = (3, 3)
body = client_hello_bytes(c)
ch = ClientHello().parse(Parser(body[1:]))
ch.extensions.append(TLSExtension(extType=41).create(41, bytearray(0)))
r = serve(ch.write())
print(r)
sys.exit(1 if r.startswith('UNDOC') else 0)
