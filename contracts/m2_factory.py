"""C20: the cipherfactory constructors build the cipher their name says (tag length of the CCM suites), and
C13/C03: RecordLayer._get_pending_state_etm reports the pending WRITE state's encrypt-then-MAC flag (the value that is
frozen into tickets and the session before ChangeCipherSpec)."""
import z3

from pyvc.m2 import M2Spec, m2task, fresh_opaque
from pyvc.executor import Outcome
from pyvc.values import VInt, VOpaque, VStr, to_val, v_truthy, v_none
from pyvc import smt
from pyvc.contract import REG

CF = 'tlslite/utils/cipherfactory.py:'
Val = smt.Val
ATTR = lambda n, t: z3.Function('v_attr_' + n, Val, Val)(t)


def _factory_task(fname, tag):
    count = {'n': 0}

    def h_new(ex, recv, args, kwargs, st, fr, node):
        count['n'] += 1
        L = node.lineno
        key = to_val(st.env['key'])
        ex.oblige(st, 'L%d:built-with-the-callers-key' % L, z3.BoolVal(len(args) >= 1) if len(args) < 1 else to_val(args[0]) == key, kind='m2')
        if tag == 16:
            goal = z3.BoolVal(True) if len(args) == 1 and not kwargs else \
                (to_val(args[1]) == to_val(VInt(16)) if len(args) == 2 else z3.BoolVal(False))
        else:
            tl = args[1] if len(args) >= 2 else kwargs.get('tagLength')
            goal = z3.BoolVal(False) if tl is None else to_val(tl) == to_val(VInt(tag))
        ex.oblige(st, 'L%d:tag-length-is-%d' % (L, tag), goal, kind='m2')
        return [Outcome('normal', st, fresh_opaque('cipher'))]

    def check(api):
        api.oblige(api.entry, 'has-normal-exit', len(api.normal_exits()) >= 1)
        api.oblige(api.entry, 'cover:a-constructor-call-was-inspected', count['n'] >= 1)
    m2task('%s/tag-length' % fname, ('C20',), CF + fname, M2Spec(hooks={'new': h_new}), check=check,
           opts={'ground_feasible': True},
           doc='%s builds, in every implementation branch, a CCM object over the given key with a %d-byte tag' % (fname, tag))


_factory_task('createAESCCM', 16)
_factory_task('createAESCCM_8', 8)


def h_AESCCM(ex, recv, args, kwargs, st, fr, node):
    r = fresh_opaque('AESCCM')
    st.ghost['ccm_a0'], st.ghost['ccm_a3'] = (args[0] if args else None), (args[3] if len(args) > 3 else kwargs.get('tag_length'))
    st.ghost['ccm_n'] = VInt(len(args) + len(kwargs))
    return [Outcome('normal', st, r)]


def _check_new2(api):
    ns = api.normal_exits()
    api.oblige(api.entry, 'has-normal-exit', len(ns) >= 1)
    e = api.entry.env
    for k, o in enumerate(ns, 1):
        g = o.st.ghost
        a0, a3 = g.get('ccm_a0'), g.get('ccm_a3')
        api.oblige(o.st, 'exit#%d:AESCCM-built-over-the-given-key-with-tag_length=tagLength' % k,
                   a0 is not None and a3 is not None and z3.And(to_val(a0) == to_val(e['key']), to_val(a3) == to_val(e['tagLength'])))


m2task('python_aesccm.new/tag-length', ('C20',), 'tlslite/utils/python_aesccm.py:new', M2Spec(hooks={'AESCCM': h_AESCCM}),
       check=_check_new2, opts={'ground_feasible': True},
       doc='python_aesccm.new(key, tagLength) hands tagLength to AESCCM as its tag length')


def _check_etm(api):
    ns = api.normal_exits()
    api.oblige(api.entry, 'has-normal-exit', len(ns) >= 1)
    me = api.entry.env['self']
    for k, o in enumerate(ns, 1):
        pw = api.ex.getattr_(me, '_pendingWriteState', o.st, None)[0].val
        api.oblige(o.st, 'exit#%d:returns-the-pending-WRITE-states-encryptThenMAC' % k,
                   to_val(o.val) == ATTR('encryptThenMAC', to_val(pw)))


m2task('RecordLayer._get_pending_state_etm/which-state', ('C13', 'C03'),
       'tlslite/recordlayer.py:RecordLayer._get_pending_state_etm', M2Spec(), check=_check_etm, opts={'ground_feasible': True},
       doc='the encrypt-then-MAC flag frozen into the session / ticket before ChangeCipherSpec is that of the pending WRITE state '
           '(the pending read state is replaced when the peer\'s CCS arrives, before TLS <= 1.2 tickets are sent)')
REG.note('C20', 'trusted', 'm2_factory: AESCCM.__init__ stores tag_length in tagLength and derives the name from key length and tag length '
                           '(straight-line; covered by the differential run specs.ciphers); openssl_aesccm absent in this installation')
