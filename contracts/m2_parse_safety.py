"""C08: parsers of peer-controlled data leave only by the documented exception classes.
M2 safety tasks: the real parse functions are executed with an opaque parser; every explicit `raise`, failing
`assert`, and lookup in a module-level constant table with a peer-controlled key is an exit whose class must be
one that TLSRecordLayer._getMsg maps to an alert (SyntaxError family, TLSIllegalParameterException / other
TLSProtocolException)."""
import inspect

import z3

from tlslite.errors import TLSProtocolException, TLSError
from pyvc.m2 import M2Spec, M2Executor, m2task, fresh_opaque, NoReturn
from pyvc.executor import Outcome
from pyvc.values import VPy, VDict, VOpaque, VExc
from pyvc.contract import REG

ALLOWED = (SyntaxError, TLSProtocolException)


class SafetyExecutorMixin(object):
    pass


def _table_term(d):
    from pyvc import smt as _smt
    return z3.Const('const_table_%d' % id(d), _smt.Val)


def _dict_of(base):
    return base.d if isinstance(base, VDict) else (base.obj if isinstance(base, VPy) and isinstance(base.obj, dict) else None)


def _contains_hook(orig):
    def contains(self, container, x, st):
        d = _dict_of(container)
        if d is not None and isinstance(x, VOpaque):
            from pyvc import smt as _smt
            from pyvc.values import VBool
            return VBool(z3.Function('v_in', _smt.Val, _smt.Val, _smt.B)(x.t, _table_term(d)))
        return orig(self, container, x, st)
    return contains


def _index_hook(orig):
    def index(self, base, idx, st, node):
        d = base.d if isinstance(base, VDict) else (base.obj if isinstance(base, VPy) and isinstance(base.obj, dict) else None)
        if d is not None and isinstance(idx, VOpaque):
            # constant table indexed by a value derived from the peer's bytes: the key may be missing
            ok = st.fork()
            bad = st.fork()
            # "key present" is the same predicate that an `in` test on this table produces
            from pyvc import smt as _smt
            sel = z3.Function('v_in', _smt.Val, _smt.Val, _smt.B)(idx.t, _table_term(d))
            ok.assume(sel)
            bad.assume(z3.Not(sel))
            return [Outcome('normal', ok, fresh_opaque('table_item')),
                    Outcome('raise', bad, VExc(KeyError, [], 'constant-table lookup line %d' % getattr(node, 'lineno', 0)))]
        return orig(self, base, idx, st, node)
    return index


if not getattr(M2Executor, '_safety_index_patched', False):
    M2Executor.index = _index_hook(M2Executor.index)
    M2Executor.contains = _contains_hook(M2Executor.contains)
    M2Executor._safety_index_patched = True


def _check(api):
    api.oblige(api.entry, 'has-normal-exit', len(api.normal_exits()) >= 1)
    seen = set()
    for o in api.raise_exits():
        cls = o.val.cls
        if cls is NoReturn:
            continue
        name = getattr(cls, '__name__', str(cls))
        ok = inspect.isclass(cls) and issubclass(cls, ALLOWED)
        key = (name, o.val.origin)
        if ok or key in seen:
            continue
        seen.add(key)
        # an exit of an undocumented class: must be unreachable
        api.unreachable(o.st, 'no-%s(%s)' % (name, o.val.origin.replace('raise ', '').replace(' ', '-')))
    api.oblige(api.entry, 'raise-exits-inspected', True)


from tlslite.constants import CipherSuite as _CS, CertificateType as _CT
from pyvc.values import VInt, VTuple, to_val


def _field_in(field, values):
    """precondition: self.<field> (set by the constructor from the locally negotiated parameters, not by the
    peer's bytes of THIS message) is one of `values`"""
    def setup(ex, st, fr):
        c = fresh_opaque('self_' + field)
        st.heap[(st.env['self'].oid, field)] = c
        st.assume(z3.Or([c.t == to_val(VInt(v) if isinstance(v, int) else VTuple([VInt(x) for x in v])) for v in values]))
    return setup


def _both(*fs):
    def setup(ex, st, fr):
        for f in fs:
            f(ex, st, fr)
    return setup


_KX_SUITES = sorted(set(_CS.srpAllSuites) | set(_CS.dhAllSuites) | set(_CS.ecdhAllSuites) | set(_CS.certSuites))
SETUPS = {
    # the key-exchange messages are only constructed for suites that have such a message (callers: C06 typestate)
    'tlslite/messages.py:ServerKeyExchange.parse': _field_in('cipherSuite', sorted(set(_CS.srpAllSuites) | set(_CS.dhAllSuites) | set(_CS.ecdhAllSuites))),
    'tlslite/messages.py:ClientKeyExchange.parse': _both(_field_in('cipherSuite', _KX_SUITES),
                                                         _field_in('version', [(3, 0), (3, 1), (3, 2), (3, 3)])),
    'tlslite/messages.py:CertificateEntry.parse': _field_in('certificateType', [_CT.x509]),
}

PARSERS = [
    ('tlslite/messages.py:ServerKeyExchange.parse', ()),
    ('tlslite/messages.py:ClientKeyExchange.parse', ()),
    ('tlslite/messages.py:CertificateRequest.parse', ()),
    ('tlslite/messages.py:Certificate.parse', ()),
    ('tlslite/messages.py:CertificateEntry.parse', ()),
    ('tlslite/messages.py:ClientHello.parse', ()),
    ('tlslite/messages.py:ServerHello.parse', ()),
    ('tlslite/messages.py:EncryptedExtensions.parse', ()),
    ('tlslite/messages.py:NewSessionTicket.parse', ()),
    ('tlslite/messages.py:CertificateStatus.parse', ()),
    ('tlslite/x509.py:X509.parseBinary', ()),
    ('tlslite/utils/asn1parser.py:ASN1Parser._getASN1Length', ()),
]

for _q, _ in PARSERS:
    try:
        from pyvc import source
        source.load(_q)
    except Exception as _e:          # a parser that does not exist in this tree is not a task
        continue
    m2task('%s/exception-classes' % _q.split(':')[-1], ('C08',), _q,
           M2Spec(pure={'len', 'isinstance', 'bytearray', 'getRemainingLength'}), check=_check, setup=SETUPS.get(_q),
           opts={'ground_feasible': True},
           doc='every raise / failing assert / constant-table lookup reachable in this parser has a class that _getMsg maps to '
               'an alert (SyntaxError family or TLSProtocolException); AssertionError, KeyError, IndexError, ... are unreachable')

REG.note('C08', 'trusted', 'm2_parse_safety: Parser methods and nested parse() calls are opaque and assumed to raise only '
                           'DecodeError-family exceptions (Parser: proved in contracts/codec.py); attribute/index errors on opaque values are not modelled')


# ---------------------------------------------------------------------------------------------------------------------
# every _sendError(...) call site: first argument is an AlertDescription constant, and the call is iterated
# (F40: an Alert OBJECT was passed as the description; seed C10-5: a bare call of the generator sends nothing)
import ast as _ast
import os as _os

from pyvc.asttask import AstTask as _AstTask, parent_map as _parent_map
from pyvc import source as _source


class SendErrorSites(_AstTask):
    def run(self, reg, meta):
        n_sites = 0
        for rel in ('tlslite/tlsconnection.py', 'tlslite/tlsrecordlayer.py'):
            path = _os.path.join(_source.REPO, rel)
            tree = _source.module_ast(path)
            pm = _parent_map(tree)
            for n in _ast.walk(tree):
                if not (isinstance(n, _ast.Call) and isinstance(n.func, _ast.Attribute) and n.func.attr == '_sendError'):
                    continue
                n_sites += 1
                a0 = n.args[0] if n.args else None
                const = isinstance(a0, _ast.Attribute) and isinstance(a0.value, _ast.Name) and a0.value.id == 'AlertDescription'
                if not const and isinstance(a0, _ast.Name):
                    # a local that is only ever assigned AlertDescription constants in the enclosing function
                    fn = n
                    while id(fn) in pm and not isinstance(fn, _ast.FunctionDef):
                        fn = pm[id(fn)]
                    assigns = [x for x in _ast.walk(fn) if isinstance(x, _ast.Assign)
                               and any(isinstance(t, _ast.Name) and t.id == a0.id for t in x.targets)]
                    const = bool(assigns) and all(isinstance(x.value, _ast.Attribute) and isinstance(x.value.value, _ast.Name)
                                                  and x.value.value.id == 'AlertDescription' for x in assigns)
                self.holds('%s:L%d:description-is-an-AlertDescription-constant' % (rel.split('/')[-1], n.lineno), 'ast', const,
                           reason='first argument of _sendError is %s' % (_ast.unparse(a0) if a0 is not None else None), where=n.lineno)
                par = pm.get(id(n))
                iterated = isinstance(par, _ast.For) and par.iter is n
                self.holds('%s:L%d:the-generator-is-iterated(for-result-in)' % (rel.split('/')[-1], n.lineno), 'ast', iterated,
                           reason='_sendError is a generator function: called as %s nothing is sent and nothing is raised'
                                  % type(par).__name__, where=n.lineno)
        self.holds('call-sites-found', 'ast', n_sites >= 100, reason='only %d _sendError call sites found' % n_sites)


REG.add_task(SendErrorSites('_sendError-call-sites', ('C08', 'C17'), 'tlslite/tlsrecordlayer.py:TLSRecordLayer._sendError',
                            doc='whole-file scan of tlsconnection.py / tlsrecordlayer.py: every _sendError call passes an AlertDescription '
                                'constant as the description and is driven by `for result in ...`'))


# ---------------------------------------------------------------------------------------------------------------------
# two AST rules for parsers of peer data (found missing by seeded changes):
#  * `bytearray(K - len(x))` (left padding to a fixed size) raises ValueError for a negative count: it must sit under a test
#    `len(x) < K` (or <=) -- SSLv2-format ClientHello challenge;
#  * calls into the third-party `ecdsa` package that parse peer-supplied key material raise that package's own exception
#    classes (UnknownCurveError derives from Exception directly): they must sit in a try whose handler catches Exception.
class ParserAstRules(_AstTask):
    def run(self, reg, meta):
        n_pad = n_ecdsa = 0
        for rel in ('tlslite/messages.py', 'tlslite/x509.py', 'tlslite/extensions.py', 'tlslite/utils/keyfactory.py'):
            path = _os.path.join(_source.REPO, rel)
            tree = _source.module_ast(path)
            pm = _parent_map(tree)

            def ancestors(n):
                while id(n) in pm:
                    n = pm[id(n)]
                    yield n
            for n in _ast.walk(tree):
                if not isinstance(n, _ast.Call):
                    continue
                fname = n.func.id if isinstance(n.func, _ast.Name) else (n.func.attr if isinstance(n.func, _ast.Attribute) else None)
                if fname == 'bytearray' and len(n.args) == 1:
                    a = n.args[0]
                    if isinstance(a, _ast.Name):
                        # a local assigned `K - len(x)` in the enclosing function
                        fn = next((x for x in ancestors(n) if isinstance(x, _ast.FunctionDef)), None)
                        defs = [x.value for x in _ast.walk(fn) if isinstance(x, _ast.Assign)
                                and any(isinstance(t, _ast.Name) and t.id == a.id for t in x.targets)] if fn else []
                        a = defs[0] if len(defs) == 1 else a
                    if isinstance(a, _ast.BinOp) and isinstance(a.op, _ast.Sub) and isinstance(a.right, _ast.Call) \
                            and isinstance(a.right.func, _ast.Name) and a.right.func.id == 'len':
                        n_pad += 1
                        want_len, want_k = _ast.unparse(a.right), _ast.unparse(a.left)
                        guarded = False
                        for anc in ancestors(n):
                            if isinstance(anc, _ast.If) and isinstance(anc.test, _ast.Compare) and len(anc.test.ops) == 1 \
                                    and isinstance(anc.test.ops[0], (_ast.Lt, _ast.LtE)) \
                                    and _ast.unparse(anc.test.left) == want_len and _ast.unparse(anc.test.comparators[0]) == want_k:
                                guarded = True
                        self.holds('%s:L%d:padding-count-%s-is-guarded-by-a-length-test' % (rel.split('/')[-1], n.lineno, _ast.unparse(a).replace(' ', '')),
                                   'ast', guarded, reason='bytearray(%s) without an enclosing `if %s < %s`' % (_ast.unparse(a), want_len, want_k), where=n.lineno)
                if rel.endswith('x509.py') and fname in ('from_der', 'from_string', 'from_pem', 'from_public_key_recovery'):
                    n_ecdsa += 1
                    ok = False
                    for anc in ancestors(n):
                        if isinstance(anc, _ast.Try):
                            for h in anc.handlers:
                                if h.type is None or (isinstance(h.type, _ast.Name) and h.type.id in ('Exception', 'BaseException')):
                                    ok = True
                    self.holds('x509.py:L%d:third-party-key-parser-%s-is-wrapped-by-a-catch-all-handler' % (n.lineno, fname), 'ast', ok,
                               reason='python-ecdsa raises its own exception classes (e.g. UnknownCurveError, a direct subclass of Exception)',
                               where=n.lineno)
        self.holds('padding-sites-found', 'ast', n_pad >= 1, reason='%d sites' % n_pad)
        self.holds('third-party-key-parser-sites-found', 'ast', n_ecdsa >= 1, reason='%d sites' % n_ecdsa)


REG.add_task(ParserAstRules('parser-ast-rules', ('C08',), 'tlslite/messages.py:ClientHello.parse',
                            doc='left-padding by bytearray(K - len(x)) is guarded by a length test; third-party key parsers in x509.py run under a '
                                'catch-all handler that maps to SyntaxError'))
