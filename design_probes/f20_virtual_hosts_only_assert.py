import sys; sys.path.insert(0, '/verif/design_probes')
from loop import *
from tlslite.handshakesettings import HandshakeSettings, VirtualHost, Keypair
chain,key=creds()
s=HandshakeSettings()
vh=VirtualHost(); vh.keys=[Keypair(key, chain.x509List)]; vh.hostnames=set([b'example.com'])
s.virtual_hosts=[vh]
def cl(c):
    c.handshakeClientCert(serverName='example.com'); return ('client completed', c.version)
def sv(c):
    try:
        c.handshakeServer(settings=s); return ('server completed', c.version)
    except BaseException as e:
        return (type(e).__name__, str(e)[:80])
print(run(cl, sv))
