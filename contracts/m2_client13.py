"""M2 tasks on TLSConnection._clientTLS13Handshake (C05 server authentication in TLS 1.3)."""
import z3

from pyvc.m2 import M2Spec, m2task, NoReturn, fresh_opaque
from pyvc.executor import Outcome
from pyvc.values import VBool, VPy, VOpaque, VInt, VNone, truthy, to_val, eq_op, v_truthy
from pyvc import smt
from contracts.m2_common import TRL, TC, h_sendError

GETITEM = z3.Function('v_getitem', smt.Val, smt.Val, smt.Val)


def _attr(name, v):
    return VOpaque(z3.Function('v_attr_' + name, smt.Val, smt.Val)(to_val(v)))


def h_method(ex, recv, args, kwargs, st, fr, node):
    """`method(signature, context, pad, hash, salt)`: the CertificateVerify check"""
    r = fresh_opaque('cv_verify_result')
    st.events.append(('method', args, r))
    st.ghost['cv_result'] = r
    st.ghost['cv_called'] = VBool(z3.BoolVal(True))
    m = st.env.get('method')
    pk = st.env.get('publicKey')
    cv = st.env.get('certificate_verify')
    ctx = st.env.get('signature_context')
    # the verification routine belongs to the key in `publicKey`
    ex.oblige(st, 'cv:method-is-verify-of-publicKey',
              z3.Or(to_val(m) == to_val(_attr('verify', pk)), to_val(m) == to_val(_attr('hashAndVerify', pk))), kind='m2')
    ex.oblige(st, 'cv:signature-is-from-the-CertificateVerify-message',
              to_val(args[0]) == to_val(_attr('signature', cv)), kind='m2')
    ex.oblige(st, 'cv:signed-content-is-calcVerifyBytes-result', to_val(args[1]) == to_val(ctx), kind='m2')
    # the key is the end-entity key of the received certificate, or a delegated credential that verified
    key_src = st.ghost.get('key_result')
    dc_ok = st.ghost.get('dc_verified', VBool(z3.BoolVal(False)))
    from_chain = z3.BoolVal(False) if key_src is None else (to_val(pk) == GETITEM(to_val(key_src), to_val(VInt(0))))
    ex.oblige(st, 'cv:key-from-received-chain-or-verified-delegated-credential',
              z3.Or(from_chain, truthy(dc_ok)), kind='m2')
    # RFC 8446 4.4.3: the scheme must be one the client offered in signature_algorithms
    ch = st.env.get('clientHello')
    from tlslite.constants import ExtensionType
    getext = z3.Function('pure_getExtension_2', smt.Val, smt.Val, smt.Val)
    ext = getext(to_val(_attr('getExtension', ch)), to_val(VInt(ExtensionType.signature_algorithms)))
    offered = z3.Function('v_in', smt.Val, smt.Val, smt.B)(
        to_val(_attr('signatureAlgorithm', cv)), z3.Function('v_attr_sigalgs', smt.Val, smt.Val)(ext))
    ex.oblige(st, 'cv:scheme-was-offered-by-client', z3.Or(offered, truthy(dc_ok)), kind='m2')
    return [Outcome('normal', st, r)]


def h_getKey(ex, recv, args, kwargs, st, fr, node):
    r = fresh_opaque('key_chain_tack')
    st.events.append(('_clientGetKeyFromChain', args, r))
    st.ghost['key_result'] = r
    st.ghost['key_cert_arg'] = args[0]
    return [Outcome('normal', st, r)]


def h_calcVerifyBytes(ex, recv, args, kwargs, st, fr, node):
    r = fresh_opaque('verify_bytes')
    st.events.append(('calcVerifyBytes', args, r))
    st.ghost['cvb_hh'] = args[1]
    st.ghost['cvb_result'] = r
    return [Outcome('normal', st, r)]


def h_dc_verify(ex, recv, args, kwargs, st, fr, node):
    r = fresh_opaque('dc_verify_result')
    st.events.append(('verify', args, r))
    st.ghost['dc_verified'] = VBool(v_truthy(r.t))
    return [Outcome('normal', st, r)]


def h_create(ex, recv, args, kwargs, st, fr, node):
    if 'resumptionMasterSecret' not in kwargs:
        return None                     # some other .create(...)
    chain = args[5]
    cert = st.env.get('certificate')
    none_chain = to_val(chain) == to_val(VNone())
    cvr = st.ghost.get('cv_result')
    proved = z3.BoolVal(False) if cvr is None else v_truthy(to_val(cvr))
    ex.oblige(st, 'session:server-chain-recorded-only-after-CertificateVerify-verified',
              z3.Or(none_chain, proved), kind='m2')
    kc = st.ghost.get('key_cert_arg')
    same = z3.BoolVal(False) if kc is None else z3.And(to_val(kc) == to_val(cert),
                                                       to_val(chain) == to_val(_attr('cert_chain', cert)))
    ex.oblige(st, 'session:recorded-chain-is-the-one-whose-key-verified', z3.Or(none_chain, same), kind='m2')
    r = fresh_opaque('session_create')
    st.events.append(('create', args, r))
    return [Outcome('normal', st, r)]


SPEC = M2Spec(hooks={'_sendError': h_sendError, 'method': h_method, '_clientGetKeyFromChain': h_getKey,
                     'calcVerifyBytes': h_calcVerifyBytes, 'verify': h_dc_verify, 'create': h_create},
              pure={'getExtension', 'toRepr', 'getHash', 'getPadding', 'curve_name_to_hash_name', 'digest', 'copy',
                    'isinstance', 'len', 'HKDF_expand_label', 'secureHMAC', 'derive_secret', 'decode'})


def _check(api):
    n = api.normal_exits()
    api.oblige(api.entry, 'has-normal-exit', len(n) >= 1)


m2task('_clientTLS13Handshake/server-auth', ('C05',), TC + '_clientTLS13Handshake', SPEC, check=_check, opts={'ground_feasible': True},
       doc='TLS 1.3 client: the server certificate chain is recorded in the session only on paths where the '
           'CertificateVerify signature verified (right key, right message, right transcript snapshot, offered scheme)')
