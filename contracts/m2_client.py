"""M2 (guard-dominance) tasks on the CLIENT side of tlslite/tlsconnection.py, TLS <= 1.2 flow and the shared
hello / Finished code.

Obligations come from the property statements C03/C04/C05/C06/C13/C20 and RFC 5246 (7.3 fig. 1, 7.4.1.4,
7.4.4, 7.4.9), RFC 5077 (3.3, 3.4), RFC 7507, RFC 7627, RFC 8446 (4.1.3, 4.1.4, 4.2.1), RFC 8449.
The classification of suites used in the typestate automaton is the independent IANA-name parse of
/verif/specs/iana.py, NOT the library's lists.
"""
import z3

from pyvc.m2 import M2Spec, m2task, NoReturn, fresh_opaque
from pyvc.executor import Outcome
from pyvc.values import (VBool, VPy, VOpaque, VInt, VNone, VTuple, VList, VExc, VObj, VStr, truthy, to_val, eq_op,
                         v_truthy, v_int, v_none, str_id, Unsupported)
from pyvc.contract import REG
from pyvc import smt
from contracts.m2_common import TRL, TC, h_sendError

from tlslite.constants import (CipherSuite, ContentType, HandshakeType, ExtensionType, AlertDescription)
from tlslite import messages as M
from tlslite.errors import TLSIllegalParameterException, TLSDecryptionFailed
from specs import iana

OPTS = {'ground_feasible': True, 'list_concat': True, 'comprehension_facts': True}
PROPS = ('C03', 'C04', 'C05', 'C06', 'C13', 'C20')

Val, I, B = smt.Val, smt.I, smt.B
GETITEM = z3.Function('v_getitem', Val, Val, Val)
V_IN = z3.Function('v_in', Val, Val, B)
V_ISINST = z3.Function('v_isinstance', Val, I, B)
V_LT = z3.Function('v_cmp_lt', Val, Val, B)
V_LE = z3.Function('v_cmp_le', Val, Val, B)
V_GT = z3.Function('v_cmp_gt', Val, Val, B)
V_GE = z3.Function('v_cmp_ge', Val, Val, B)
V_ADD = z3.Function('v_binop_Add', Val, Val, Val)
TRUE, FALSE = z3.BoolVal(True), z3.BoolVal(False)


def attr(name, v):
    """term of the field read `v.name` on an opaque v (when no store intervened)"""
    return z3.Function('v_attr_' + name, Val, Val)(v if z3.is_expr(v) else to_val(v))


def tv(v):
    return v if z3.is_expr(v) else to_val(v)


def T_(v):
    """python truthiness of a value as z3 Bool"""
    return v_truthy(v) if z3.is_expr(v) else truthy(v)


def vtup(a, b):
    return to_val(VTuple([VInt(a), VInt(b)]))


def gbool(st, name):
    v = st.ghost.get(name)
    return FALSE if v is None else truthy(v)


def gset(st, name, b=True):
    st.ghost[name] = VBool(z3.BoolVal(b) if isinstance(b, bool) else b)


import os
_FLIP = os.environ.get('M2C_FLIP')          # non-vacuity check: negate the goals whose name starts with this


_ACTIVE = [None]      # predicate over obligation names: which obligations the running task poses


def OB(ex, st, name, goal):
    """pose an m2 obligation (ex: executor or M2API)"""
    if _ACTIVE[0] is not None and not _ACTIVE[0](name):
        return
    if isinstance(goal, bool):
        goal = z3.BoolVal(goal)
    if _FLIP and (_FLIP == '*' or name.startswith(_FLIP)):
        goal = z3.Not(goal)
    getattr(ex, 'ex', ex).oblige(st, name, goal, kind='m2')


INT_GHOSTS = ('hh_msgs', 'hs', 'n_sent', 'n_getmsg', 'n_ccs', 'n_getfin', 'n_sendfin', 'order')


def _setup(ex, st, fr):
    """integer ghosts exist from the start (a ghost missing on one side of a merge would default to False)"""
    for g in INT_GHOSTS:
        st.ghost[g] = VInt(z3.IntVal(0))


def task_pair(name, props, qual, spec, check, setup, doc, defects=(), defect_props=(), defect_doc='', opts=None):
    """Registers `name` with every obligation EXCEPT those whose name starts with one of `defects`, and
    `<function>/known-defects` with exactly those: obligations that are refuted on the pinned tree because of a
    defect that was reproduced on the real code (specs/client_hs.py).  They are kept apart so that the first task can
    be baselined as fully discharged and the second is matched against known_findings.json."""
    defects = tuple(defects)

    def mk(pred):
        def f(ex, st, fr):
            _ACTIVE[0] = pred
            setup(ex, st, fr)
        return f
    m2task(name, props, qual, spec, check=check, opts=opts, doc=doc,
           setup=mk(lambda n: not any(n.startswith(d) for d in defects)))
    if defects:
        def check2(api):
            check(api)
            if not api.ex.obligations:
                raise RuntimeError('no defect obligation posed for %s' % name)
        m2task(name.split('/')[0] + '/known-defects', defect_props, qual, spec, check=check2, opts=opts, doc=defect_doc,
               setup=mk(lambda n: any(n.startswith(d) for d in defects)))


def _setup_fields(*fields):
    """_setup + the named fields of `self` materialised at entry (a field first read inside one branch would be
    dropped at the join)"""
    def f(ex, st, fr):
        _setup(ex, st, fr)
        for n in fields:
            st.heap[(st.env['self'].oid, n)] = fresh_opaque('fld_' + n)
    return f


def concat_lemmas(x, term):
    """ground instances, for every subterm a+b of `term`, of  x in a  ==>  x in a+b   (list concatenation
    keeps the elements of its left operand)"""
    out, seen, todo = [], set(), [term]
    while todo:
        t = todo.pop()
        if t.get_id() in seen:
            continue
        seen.add(t.get_id())
        if z3.is_app(t):
            if t.decl().name() == 'v_binop_Add':
                out.append(z3.Implies(V_IN(x, t.arg(0)), V_IN(x, t)))
            todo.extend(t.children())
    return out


# ---------------------------------------------------------------------------------------------------------
# the gate `_getMsg(expectedType, secondaryType, constructorType)`: ASSUMED contract (proved on the real body by the
# _getMsg gate task of m2_getmsg; text in DESIGN.md C06): a message m returned normally has
# contentType(m) in expectedType, and for handshake records handshakeType(m) in secondaryType; the class of m is
# the one `_getMsg` constructs for that (content type, handshake type, version); the transcript was extended by m
# iff m is a handshake message.
MSG_CT = z3.Function('msg_content_type', Val, I)
MSG_HT = z3.Function('msg_handshake_type', Val, I)

_CLS_OF_HT = [(M.ServerHello, HandshakeType.server_hello), (M.Certificate, HandshakeType.certificate),
              (M.CertificateRequest, HandshakeType.certificate_request),
              (M.ServerKeyExchange, HandshakeType.server_key_exchange),
              (M.ServerHelloDone, HandshakeType.server_hello_done), (M.Finished, HandshakeType.finished),
              (M.NextProtocol, HandshakeType.next_protocol)]


def isinst(m, cls):
    return V_ISINST(tv(m), z3.IntVal(str_id(repr([cls]))))


def _ints(v):
    """literal expected-type argument -> list of python ints"""
    if v is None or isinstance(v, VNone):
        return None
    if isinstance(v, VInt) and v.concrete() is not None:
        return [v.concrete()]
    if isinstance(v, (VTuple, VList)):
        r = []
        for i in v.items:
            if not (isinstance(i, VInt) and i.concrete() is not None):
                return None
            r.append(i.concrete())
        return r
    return None


def getmsg_model(ex, args, kwargs, st, node, version_lt_13=True):
    """applies the assumed gate contract; returns (message, content types, handshake types)"""
    exp = _ints(args[0])
    sec = _ints(args[1] if len(args) > 1 else kwargs.get('secondaryType'))
    if exp is None:
        raise Unsupported('_getMsg with a non-literal expectedType at line %d' % node.lineno)
    m = fresh_opaque('msg')
    st.assume(z3.Or([MSG_CT(m.t) == c for c in exp]))
    if ContentType.handshake in exp:
        if sec is None:
            raise Unsupported('_getMsg(handshake) without literal secondaryType at line %d' % node.lineno)
        st.assume(z3.Implies(MSG_CT(m.t) == ContentType.handshake, z3.Or([MSG_HT(m.t) == h for h in sec])))
    st.assume(v_truthy(m.t))                                 # message classes define no __bool__/__len__ (checked at import)
    st.assume(m.t != v_none)
    st.assume(z3.And(m.t != to_val(VInt(0)), m.t != to_val(VInt(1))))
    hs = MSG_CT(m.t) == ContentType.handshake
    for cls, ht in _CLS_OF_HT:
        st.assume(isinst(m, cls) == z3.And(hs, MSG_HT(m.t) == ht))
    st.assume(isinst(m, M.ChangeCipherSpec) == (MSG_CT(m.t) == ContentType.change_cipher_spec))
    if version_lt_13:
        st.assume(isinst(m, M.NewSessionTicket1_0) == z3.And(hs, MSG_HT(m.t) == HandshakeType.new_session_ticket))
    st.events.append(('_getMsg', list(args), m))
    # transcript: one more handshake message hashed
    n = st.ghost.get('hh_msgs', VInt(z3.IntVal(0)))
    st.ghost['hh_msgs'] = VInt(z3.If(hs, n.t + 1, n.t))
    ex.havoc_call('_getMsg', st)
    return m, exp, sec


for _c in (M.ServerHello, M.Certificate, M.CertificateRequest, M.ServerKeyExchange, M.ServerHelloDone, M.Finished,
           M.NextProtocol, M.ChangeCipherSpec, M.NewSessionTicket1_0):
    assert not any(hasattr(_c, n) for n in ('__bool__', '__len__', '__nonzero__')), _c

REG.note('C06', 'assumptions',
         'm2_client: `_getMsg` is used by contract (gate): result m has contentType in expectedType, handshakeType in '
         'secondaryType, class determined by (contentType, handshakeType), is a truthy message object (none of the '
         'message classes defines __bool__/__len__: checked at import) and the transcript gained exactly m when m is a '
         'handshake message; abort paths of _getMsg (alerts, unexpected_message) do not return')

# =========================================================================================================
# 1. _clientSendClientHello  (C04 FALLBACK_SCSV; C13 offer of cached session / tickets)

EMPTY_RI = CipherSuite.TLS_EMPTY_RENEGOTIATION_INFO_SCSV
FALLBACK = CipherSuite.TLS_FALLBACK_SCSV


def _h_list(ex, recv, args, kwargs, st, fr, node):
    if len(args) != 1 or 'wire_list' in st.ghost:
        return None
    r = fresh_opaque('wire_list')
    st.ghost['wire_list'] = r
    st.ghost['wire_src'] = args[0] if isinstance(args[0], VOpaque) else fresh_opaque('nonopaque_src')
    st.events.append(('list', args, r))
    return [Outcome('normal', st, r)]


def _h_append_ch(ex, recv, args, kwargs, st, fr, node):
    wl = st.ghost.get('wire_list')
    if wl is not None and isinstance(recv, VOpaque) and recv.t.eq(wl.t):
        is_fb = isinstance(args[0], VInt) and args[0].concrete() == FALLBACK
        if is_fb:
            gset(st, 'fallback_appended')
        st.events.append(('wire.append', args, None))
        return [Outcome('normal', st, VNone())]
    return None


def _h_wire_mutation(ex, recv, args, kwargs, st, fr, node):
    wl = st.ghost.get('wire_list')
    if wl is not None and isinstance(recv, VOpaque) and recv.t.eq(wl.t):
        gset(st, 'wire_shrunk')
    return None


PURE_VALID = z3.Function('pure_valid_1', Val, Val)


def _is_empty_bytes(v):
    """bytearray(0) / bytearray() as the executor builds them"""
    t = getattr(v, 't', None)
    if t is None or not z3.is_app(t):
        return False
    if t.eq(smt.s_empty):
        return True
    return t.decl().name() == 's_rep' and z3.is_int_value(z3.simplify(t.arg(1))) and z3.simplify(t.arg(1)).as_long() == 0


def _h_create_ch(ex, recv, args, kwargs, st, fr, node):
    """ClientHello.create(version, random, session_id, cipher_suites, certificate_types, srpUsername, tack,
    supports_npn, serverName, extensions=...)"""
    rname = str(recv.t) if isinstance(recv, VOpaque) else ''
    session = st.env['session']
    if rname.startswith('new_SessionTicketExtension') and len(args) == 1:
        # C13: "has not expired" -- the <=1.2 ticket put into the ClientHello survived the expiry pruning
        if isinstance(args[0], VOpaque):
            t = st.env.get('cached_ticket')
            OB(ex, st, 'ch:offered-1.2-ticket-is-an-element-of-the-pruned-list-that-passed-Ticket.valid()',
               FALSE if t is None else z3.And(tv(args[0]) == attr('ticket', t), v_truthy(PURE_VALID(attr('valid', t))),
                                              V_IN(tv(t), attr('tls_1_0_tickets', session)), T_(session)))
        else:
            OB(ex, st, 'ch:otherwise-an-empty-SessionTicket-extension@L%d' % node.lineno,
               _is_empty_bytes(args[0]))
        return None
    if rname.startswith('new_PskIdentity') and len(args) == 2:
        if isinstance(args[1], VInt) and args[1].concrete() == 0:
            return None                                  # external PSK from settings.pskConfigs
        t, now = st.env.get('ticket'), st.env.get('now')
        week = to_val(VInt(7 * 24 * 60 * 60))
        OB(ex, st, 'ch:offered-1.3-ticket-is-unexpired(time+lifetime>now)-and-younger-than-7-days(RFC8446-4.6.1)',
           FALSE if t is None or now is None else
           z3.And(tv(args[0]) == attr('ticket', t), T_(session),
                  V_GT(V_ADD(attr('time', t), attr('ticket_lifetime', t)), tv(now)),
                  V_GT(V_ADD(attr('time', t), week), tv(now))))
        return None
    if len(args) < 9:
        return None
    settings = st.env['settings']
    wl = st.ghost.get('wire_list')
    src = st.ghost.get('wire_src')
    send_fb = T_(attr('sendFallbackSCSV', settings))
    OB(ex, st, 'ch:cipher_suites-argument-is-the-wire-list@L%d' % node.lineno,
              FALSE if wl is None else tv(args[3]) == wl.t)
    OB(ex, st, 'ch:FALLBACK_SCSV-appended-to-wire-list-when-sendFallbackSCSV@L%d' % node.lineno,
              z3.Implies(send_fb, gbool(st, 'fallback_appended')))
    OB(ex, st, 'ch:FALLBACK_SCSV-only-when-sendFallbackSCSV@L%d' % node.lineno,
              z3.Implies(gbool(st, 'fallback_appended'), send_fb))
    OB(ex, st, 'ch:nothing-removed-from-wire-list@L%d' % node.lineno, z3.Not(gbool(st, 'wire_shrunk')))
    # RFC 5746 3.4: the renegotiation-info SCSV (the code's policy: always first in the offer)
    if src is None:
        g = FALSE
    else:
        x = to_val(VInt(EMPTY_RI))
        g = z3.Implies(z3.And(concat_lemmas(x, src.t) + [TRUE]), V_IN(x, src.t))
    OB(ex, st, 'ch:wire-list-copies-an-offer-containing-EMPTY_RENEGOTIATION_INFO_SCSV@L%d' % node.lineno, g)
    # C13 / RFC 5246 7.4.1.2: a session id is offered only from a cached session object that carries one
    sid = tv(args[2])
    from_session = z3.And(T_(session), T_(attr('sessionID', session)))
    OB(ex, st, 'ch:cached-session-id-offered-iff-session-with-id@L%d' % node.lineno,
              z3.And(z3.Implies(from_session, sid == attr('sessionID', session)),
                     z3.Implies(z3.Not(from_session), sid == tv(st.env['session_id']))))
    # resumption must offer the suite of the cached session (RFC 5246 7.4.1.2 / F.1.4)
    OB(ex, st, 'ch:cached-session-suite-is-in-the-offer@L%d' % node.lineno,
              z3.Implies(from_session, V_IN(attr('cipherSuite', session), tv(st.env['cipherSuites']))))
    # identity bound to the resumed session is the cached one (C13: consistent ClientHello)
    OB(ex, st, 'ch:resumption-hello-carries-the-cached-srp-name-and-server-name@L%d' % node.lineno,
              z3.Implies(from_session, z3.And(tv(args[5]) == attr('srpUsername', session),
                                              tv(args[8]) == attr('serverName', session))))
    r = fresh_opaque('clientHello')
    st.events.append(('ClientHello.create', list(args), r))
    st.ghost['ch_created'] = VBool(TRUE)
    return [Outcome('normal', st, r)]


def _h_sendMsg_ch(ex, recv, args, kwargs, st, fr, node):
    st.events.append(('_sendMsg', list(args), None))
    OB(ex, st, 'ch:message-sent-is-the-created-ClientHello', tv(args[0]) == tv(st.env.get('clientHello', VNone())))
    OB(ex, st, 'ch:ClientHello.create-dominates-send', gbool(st, 'ch_created'))
    ex.havoc_call('_sendMsg', st)
    return [Outcome('normal', st, fresh_opaque('sendMsg_result'))]


SPEC_CH = M2Spec(hooks={'_sendError': h_sendError, 'list': _h_list, 'append': _h_append_ch, 'create': _h_create_ch,
                        'remove': _h_wire_mutation, 'pop': _h_wire_mutation, 'clear': _h_wire_mutation,
                        '_sendMsg': _h_sendMsg_ch},
                 pure={'getattr', 'getCertificateTypes', 'valid'})

REG.note('C13', 'trusted',
         'm2_client: Ticket.valid() is treated as a function of the ticket (its clock read happens at pruning time: '
         '"valid when pruned"); the element facts of comprehensions come from pyvc/m2.py `comprehension_facts`')


def _check_ch(api):
    n = api.normal_exits()
    OB(api, api.entry, 'ch:has-normal-exit', len(n) >= 1)
    for o in n:
        OB(api, o.st, 'ch:exactly-one-ClientHello-sent', len(api.events(o.st, '_sendMsg')) == 1 or
                   gbool(o.st, 'ch_created'))
        y = o.st.yields[-1] if o.st.yields else None
        OB(api, o.st, 'ch:returns-the-sent-ClientHello',
                   FALSE if y is None else tv(y) == tv(o.st.env['clientHello']))


task_pair('_clientSendClientHello/offer', ('C04', 'C13', 'C03'), TC + '_clientSendClientHello', SPEC_CH, check=_check_ch,
       opts=OPTS, setup=_setup,
       doc='every ClientHello().create(...) call gets the wire list: a copy of the offer (headed by the renegotiation '
           'SCSV) to which TLS_FALLBACK_SCSV was appended iff settings.sendFallbackSCSV; a cached session id is '
           'offered only together with the cached suite / names')


# =========================================================================================================
# 2. _clientGetServerHello  (C03 / C04 / C20: the ServerHello is inside the offer and the policy)
from pyvc.executor import lift_py
from tlslite.constants import TLS_1_3_HRR, TLS_1_2_DOWNGRADE_SENTINEL, TLS_1_1_DOWNGRADE_SENTINEL

OPTS2 = dict(OPTS, pure_slice=True)
HRR_RANDOM = to_val(lift_py(TLS_1_3_HRR))
PURE_GETEXT = z3.Function('pure_getExtension_2', Val, Val, Val)


def getext(obj, ext_type):
    """term of obj.getExtension(ext_type) (getExtension is a pure scan of obj.extensions: assumed, see note)"""
    return PURE_GETEXT(attr('getExtension', obj), to_val(VInt(ext_type)))


REG.note('C03', 'trusted',
         'm2_client: TLSExtension lookups `msg.getExtension(type)` are pure functions of (message, type) for the '
         'received ServerHello/HelloRetryRequest (never mutated by the client code) and for ClientHello extension '
         'types the HRR handling does not touch (alpn, supported_versions, supported_groups)')


def _h_getMsg_sh(ex, recv, args, kwargs, st, fr, node):
    n = st.ghost.get('n_getmsg', VInt(z3.IntVal(0)))
    first = z3.is_true(z3.simplify(n.t == 0))
    m, exp, sec = getmsg_model(ex, args, kwargs, st, node)
    st.ghost['n_getmsg'] = VInt(n.t + 1)
    OB(ex, st, 'sh:getMsg-expects-only-handshake/server_hello@L%d' % node.lineno,
       exp == [ContentType.handshake] and sec == [HandshakeType.server_hello])
    if not first:
        # the site that waits for the ServerHello after a HelloRetryRequest (RFC 8446 4.1.4)
        hr = st.env['hello_retry']
        ch = st.env['clientHello']
        hr_ver = attr('version', getext(hr, ExtensionType.supported_versions))
        OB(ex, st, 'hrr:accepted-only-with-random==HRR-magic-and-supported_versions>1.2',
           z3.And(attr('random', hr) == HRR_RANDOM, V_GT(hr_ver, vtup(3, 3))))
        OB(ex, st, 'hrr:legacy_session_id-echoed(RFC8446-4.1.4)', attr('session_id', ch) == attr('session_id', hr))
        ks = getext(hr, ExtensionType.key_share)
        ck = getext(hr, ExtensionType.cookie)
        OB(ex, st, 'hrr:must-change-the-ClientHello(cookie-or-key_share)', z3.Or(v_truthy(ks), v_truthy(ck)))
        OB(ex, st, 'hrr:selected-group-was-advertised-in-supported_groups',
           z3.Implies(v_truthy(ks), V_IN(attr('selected_group', ks),
                                         attr('groups', getext(ch, ExtensionType.supported_groups)))))
        OB(ex, st, 'hrr:transcript-restarted-as-message_hash(ClientHello1)||HRR', gbool(st, 'synth_done'))
        OB(ex, st, 'hrr:second-ClientHello-sent-before-waiting', gbool(st, 'ch2_sent'))
    else:
        OB(ex, st, 'sh:ClientHello-hash-snapshot-taken-before-first-ServerHello', gbool(st, 'ch_hash_copied'))
    return [Outcome('normal', st, m)]


def _h_copy_sh(ex, recv, args, kwargs, st, fr, node):
    r = fresh_opaque('hh_copy')
    if 'ch_hash' not in st.ghost and z3.is_true(z3.simplify(st.ghost['n_getmsg'].t == 0)):
        hh = st.heap.get((st.env['self'].oid, '_handshake_hash'))
        st.ghost['ch_hash'] = r
        gset(st, 'ch_hash_copied')
    st.events.append(('copy', [recv], r))
    return [Outcome('normal', st, r)]


def _h_getPRF(ex, recv, args, kwargs, st, fr, node):
    r = fresh_opaque('prf_params')
    st.ghost['prf_arg'] = args[0]
    st.ghost['prf_res'] = r
    return [Outcome('normal', st, r)]


def _h_digest_sh(ex, recv, args, kwargs, st, fr, node):
    r = fresh_opaque('digest')
    chh, prf = st.ghost.get('ch_hash'), st.ghost.get('prf_res')
    ok = chh is not None and isinstance(recv, VOpaque) and recv.t.eq(chh.t) and prf is not None and len(args) == 1 \
        and tv(args[0]).eq(GETITEM(prf.t, to_val(VInt(0)))) \
        and tv(st.ghost['prf_arg']).eq(attr('cipher_suite', st.env['hello_retry']))
    if ok:
        st.ghost['ch1_digest'] = r
    return [Outcome('normal', st, r)]


def _h_Writer(ex, recv, args, kwargs, st, fr, node):
    r = fresh_opaque('writer')
    st.ghost['writer'] = r
    st.ghost['writer_step'] = VInt(z3.IntVal(0))
    return [Outcome('normal', st, r)]


def _writer_step(st, recv, want, ok):
    w = st.ghost.get('writer')
    if w is None or not (isinstance(recv, VOpaque) and recv.t.eq(w.t)):
        return False
    cur = z3.simplify(st.ghost['writer_step'].t)
    if ok and z3.is_int_value(cur) and cur.as_long() == want:
        st.ghost['writer_step'] = VInt(z3.IntVal(want + 1))
    else:
        st.ghost['writer_step'] = VInt(z3.IntVal(-1))
    return True


def _h_add_sh(ex, recv, args, kwargs, st, fr, node):
    ok = len(args) == 2 and isinstance(args[0], VInt) and args[0].concrete() == HandshakeType.message_hash \
        and isinstance(args[1], VInt) and args[1].concrete() == 1
    if _writer_step(st, recv, 0, ok):
        return [Outcome('normal', st, VNone())]
    return None


def _h_addVarSeq_sh(ex, recv, args, kwargs, st, fr, node):
    d = st.ghost.get('ch1_digest')
    ok = d is not None and len(args) == 3 and tv(args[0]).eq(d.t) and isinstance(args[1], VInt) \
        and args[1].concrete() == 1 and isinstance(args[2], VInt) and args[2].concrete() == 3
    if _writer_step(st, recv, 1, ok):
        return [Outcome('normal', st, VNone())]
    return None


def _h_HandshakeHashes(ex, recv, args, kwargs, st, fr, node):
    r = fresh_opaque('new_HandshakeHashes')
    st.ghost['new_hh'] = r
    st.ghost['new_hh_updates'] = VInt(z3.IntVal(0))
    return [Outcome('normal', st, r)]


def _h_write_sh(ex, recv, args, kwargs, st, fr, node):
    r = fresh_opaque('written')
    if isinstance(recv, VOpaque) and recv.t.eq(tv(st.env.get('hello_retry', VNone()))):
        st.ghost['hrr_bytes'] = r
    return [Outcome('normal', st, r)]


def _h_update_sh(ex, recv, args, kwargs, st, fr, node):
    nh = st.ghost.get('new_hh')
    if nh is None or not (isinstance(recv, VOpaque) and recv.t.eq(nh.t)):
        return None
    cur_hh = st.heap.get((st.env['self'].oid, '_handshake_hash'))
    installed = cur_hh is not None and tv(cur_hh).eq(nh.t)
    k = z3.simplify(st.ghost['new_hh_updates'].t)
    w = st.ghost.get('writer')
    step = z3.simplify(st.ghost.get('writer_step', VInt(z3.IntVal(-1))).t)
    if z3.is_int_value(k) and k.as_long() == 0:
        ok = installed and w is not None and tv(args[0]).eq(attr('bytes', w)) and z3.is_int_value(step) \
            and step.as_long() == 2
        st.ghost['new_hh_updates'] = VInt(z3.IntVal(1 if ok else -1))
    elif z3.is_int_value(k) and k.as_long() == 1:
        hb = st.ghost.get('hrr_bytes')
        ok = installed and hb is not None and tv(args[0]).eq(hb.t)
        st.ghost['new_hh_updates'] = VInt(z3.IntVal(2 if ok else -1))
        if ok:
            gset(st, 'synth_done')
    else:
        st.ghost['new_hh_updates'] = VInt(z3.IntVal(-1))
        gset(st, 'synth_done', False)
    return [Outcome('normal', st, VNone())]


def _h_sendMsgs_sh(ex, recv, args, kwargs, st, fr, node):
    gset(st, 'ch2_sent')
    st.events.append(('_sendMsgs', list(args), None))
    ex.havoc_call('_sendMsgs', st)
    return [Outcome('normal', st, fresh_opaque('sendMsgs'))]


def _h_filterForVersion(ex, recv, args, kwargs, st, fr, node):
    r = fresh_opaque('filterForVersion')
    st.ghost['ffv_res'] = r
    st.ghost['ffv_src'] = args[0]
    st.ghost['ffv_min'] = kwargs.get('minVersion', args[1] if len(args) > 1 else VNone())
    st.ghost['ffv_max'] = kwargs.get('maxVersion', args[2] if len(args) > 2 else VNone())
    return [Outcome('normal', st, r)]


def _on_store_rsl(ex, obj, val, st, fr, node):
    sh = st.env['serverHello']
    lim = attr('record_size_limit', getext(sh, ExtensionType.record_size_limit))
    OB(ex, st, 'sh:stored-peer-record-size-limit-is-the-range-checked-ServerHello-value',
       z3.And(tv(val) == lim, V_LE(to_val(VInt(64)), lim), V_LE(lim, to_val(VInt(2 ** 14)))))


def _on_store_version(ex, obj, val, st, fr, node):
    st.ghost['version_set'] = val if isinstance(val, VOpaque) else fresh_opaque('nonopaque_version')


SPEC_SH = M2Spec(on_store={'_peer_record_size_limit': _on_store_rsl, 'version': _on_store_version}, hooks={'_sendError': h_sendError, '_getMsg': _h_getMsg_sh, 'copy': _h_copy_sh,
                        '_getPRFParams': _h_getPRF, 'digest': _h_digest_sh, 'Writer': _h_Writer, 'add': _h_add_sh,
                        'addVarSeq': _h_addVarSeq_sh, 'HandshakeHashes': _h_HandshakeHashes, 'write': _h_write_sh,
                        'update': _h_update_sh, '_sendMsgs': _h_sendMsgs_sh,
                        'filterForVersion': _h_filterForVersion},
                 pure={'getExtension', 'len', 'toStr'})

# extension types a ServerHello may carry only in answer to the same type in the ClientHello (RFC 5246 7.4.1.4,
# RFC 8446 4.2) and on which the client ACTS (flag set / value stored) in the <= 1.2 flow
_ACTED_ON_EXT = [('encrypt_then_mac', ExtensionType.encrypt_then_mac),
                 ('extended_master_secret', ExtensionType.extended_master_secret),
                 ('record_size_limit', ExtensionType.record_size_limit),
                 ('supported_versions', ExtensionType.supported_versions),
                 ('alpn', ExtensionType.alpn)]


def _check_sh(api):
    n = api.normal_exits()
    OB(api, api.entry, 'sh:has-normal-exit', len(n) >= 1)
    for o in n:
        st = o.st
        env = st.env
        sh, ch, settings, rv, hr = env['serverHello'], env['clientHello'], env['settings'], env['real_version'], \
            env['hello_retry']
        y = st.yields[-1] if st.yields else None
        OB(api, st, 'sh:returns-the-checked-ServerHello', FALSE if y is None else tv(y) == tv(sh))
        OB(api, st, 'sh:connection-version-set-to-negotiated',
           FALSE if st.ghost.get('version_set') is None else tv(st.ghost['version_set']) == tv(rv))
        minv, maxv, vers = attr('minVersion', settings), attr('maxVersion', settings), attr('versions', settings)
        OB(api, st, 'sh:version>=settings.minVersion', z3.Not(V_LT(tv(rv), minv)))
        OB(api, st, 'sh:version<=settings.maxVersion-or-in-settings.versions',
           z3.Or(z3.Not(V_GT(tv(rv), maxv)), V_IN(tv(rv), vers)))
        sv_ext = getext(sh, ExtensionType.supported_versions)
        sv = attr('server_version', sh)
        total = V_GE(sv, vtup(3, 3)) == z3.Not(V_LT(sv, vtup(3, 3)))       # lemma: version tuples are totally ordered
        use_ext = z3.And(V_GE(sv, vtup(3, 3)), v_truthy(sv_ext))
        # (the fact the caller relies on; see _h_getSH)
        OB(api, st, 'sh:negotiated-version=supported_versions.selected-if(legacy>=1.2-and-extension)-else-legacy',
           z3.Implies(total, z3.And(z3.Implies(use_ext, tv(rv) == attr('version', sv_ext)),
                                    z3.Implies(z3.Not(use_ext), tv(rv) == sv))))
        # RFC 8446 4.1.3 / 4.2.1: a ServerHello that carries supported_versions has legacy_version 1.2, and then the
        # extension alone decides -- the caller (_handshakeClientAsyncHelper) switches to the 1.3 flow on the extension
        OB(api, st, 'sh:supported_versions-with-legacy_version<1.2-is-rejected(RFC8446-4.1.3)',
           z3.Not(z3.And(v_truthy(sv_ext), V_LT(sv, vtup(3, 3)))))
        OB(api, st, 'sh:tls13-legacy_session_id-echoed',
           z3.Implies(V_GT(tv(rv), vtup(3, 3)), attr('session_id', sh) == attr('session_id', ch)))
        res = st.ghost.get('ffv_res')
        if res is None:
            OB(api, st, 'sh:suite-filter-applied', False)
        else:
            OB(api, st, 'sh:cipher_suite-in-filterForVersion(result)', V_IN(attr('cipher_suite', sh), res.t))
            OB(api, st, 'sh:filterForVersion-applied-to-the-offered-list', tv(st.ghost['ffv_src']) == attr('cipher_suites', ch))
            OB(api, st, 'sh:filterForVersion-minVersion-is-negotiated-version', tv(st.ghost['ffv_min']) == tv(rv))
            OB(api, st, 'sh:filterForVersion-maxVersion-is-negotiated-version', tv(st.ghost['ffv_max']) == tv(rv))
        OB(api, st, 'sh:certificate_type-was-offered', V_IN(attr('certificate_type', sh), attr('certificate_types', ch)))
        OB(api, st, 'sh:compression_method-null', attr('compression_method', sh) == to_val(VInt(0)))
        OB(api, st, 'sh:tack-only-if-requested-and-signatures-verified',
           z3.Implies(v_truthy(attr('tackExt', sh)), v_truthy(attr('tack', ch))))
        OB(api, st, 'sh:npn-only-if-offered', z3.Implies(v_truthy(attr('next_protos', sh)), v_truthy(attr('supports_npn', ch))))
        OB(api, st, 'sh:extended_master_secret-present-when-required(RFC7627)',
           z3.Implies(v_truthy(attr('requireExtendedMasterSecret', settings)),
                      v_truthy(getext(sh, ExtensionType.extended_master_secret))))
        alpn = getext(sh, ExtensionType.alpn)
        names = attr('protocol_names', alpn)
        c_alpn = getext(ch, ExtensionType.alpn)
        V_LEN = z3.Function('v_len', Val, I)
        OB(api, st, 'sh:alpn-single-protocol-that-was-offered(RFC7301-3.1)',
           z3.Implies(v_truthy(alpn), z3.And(v_truthy(c_alpn), V_LEN(names) == 1,
                                             V_IN(GETITEM(names, to_val(VInt(0))), attr('protocol_names', c_alpn)))))
        hb = getext(sh, ExtensionType.heartbeat)
        OB(api, st, 'sh:heartbeat-only-if-offered', z3.Implies(v_truthy(hb), v_truthy(attr('use_heartbeat_extension', settings))))
        rsl = getext(sh, ExtensionType.record_size_limit)
        lim = attr('record_size_limit', rsl)
        OB(api, st, 'sh:record_size_limit-within-64..2^14(RFC8449-4)',
           z3.Implies(v_truthy(rsl), z3.And(V_LE(to_val(VInt(64)), lim), V_LE(lim, to_val(VInt(2 ** 14))))))
        # HelloRetryRequest consistency (RFC 8446 4.1.4)
        OB(api, st, 'hrr:ServerHello-suite-equals-HRR-suite',
           z3.Implies(T_(hr), attr('cipher_suite', hr) == attr('cipher_suite', sh)))
        OB(api, st, 'hrr:second-ServerHello-is-not-another-HelloRetryRequest(RFC8446-4.1.4)',
           z3.Implies(T_(hr), attr('random', sh) != HRR_RANDOM))
        OB(api, st, 'hrr:selected_version-retained-in-ServerHello(RFC8446-4.1.4)',
           z3.Implies(T_(hr), tv(rv) == attr('version', getext(hr, ExtensionType.supported_versions))))
        # RFC 8446 4.2.1: supported_versions in a ServerHello selects TLS 1.3+ and an offered version
        OB(api, st, 'sh:supported_versions-selects-an-offered-version>=1.3(RFC8446-4.2.1)',
           z3.Implies(z3.And(V_GE(attr('server_version', sh), vtup(3, 3)), v_truthy(sv_ext)),
                      z3.And(V_GT(attr('version', sv_ext), vtup(3, 3)), V_IN(attr('version', sv_ext), vers))))
        # RFC 5246 7.4.1.4: extensions in the ServerHello only in response to the same extension in the ClientHello
        for nm, et in _ACTED_ON_EXT:
            OB(api, st, 'sh:ext-only-if-offered:%s(RFC5246-7.4.1.4)' % nm,
               z3.Implies(v_truthy(getext(sh, et)), v_truthy(getext(ch, et))))


task_pair('_clientGetServerHello/within-offer-and-policy', ('C03', 'C04', 'C20', 'C06'), TC + '_clientGetServerHello', SPEC_SH,
       check=_check_sh, opts=OPTS2, setup=_setup,
       defects=('sh:supported_versions-with-legacy_version<1.2', 'hrr:second-ServerHello-is-not-another',
                'hrr:selected_version-retained', 'sh:supported_versions-selects-an-offered',
                'sh:ext-only-if-offered:encrypt_then_mac', 'sh:ext-only-if-offered:extended_master_secret',
                'sh:ext-only-if-offered:record_size_limit', 'sh:ext-only-if-offered:supported_versions'),
       defect_props=('C03', 'C06'),
       defect_doc='RFC 5246 7.4.1.4 / RFC 8446 4.1.3, 4.1.4, 4.2.1 checks the client omits (reproduced: unsolicited '
                  'encrypt_then_mac / extended_master_secret / record_size_limit accepted, second HelloRetryRequest -> '
                  'AttributeError, supported_versions not validated)',
       doc='on the normal exit the ServerHello is inside the offer and the settings: version bounds, suite in '
           'filterForVersion(offer, v, v), null compression, offered certificate type, extension answers, EMS policy, '
           'record_size_limit range, HRR consistency and transcript restart')


# =========================================================================================================
# 3./4. _clientKeyExchange  (C06 message order by key exchange, C20 dispatch, C05 ServerKeyExchange signature)
#
# Independent meaning of the suites (IANA name parse, specs/iana.py); the domain is the set of <= 1.2 suites the
# library can negotiate.  That the negotiated suite is in this domain follows from the ServerHello check
# (suite in filterForVersion(offer)) and offer = get*Suites(settings) (contracts/suites.py, C03).
_TABLE = iana.table(CipherSuite.ietfNames)
_DOM = dict((i, s) for i, s in _TABLE.items() if s.kind == 'tls' and iana.negotiable(s))
assert len(_DOM) >= 60


def _suite_pred(pred):
    ids = sorted(i for i, s in _DOM.items() if pred(s))
    return lambda x: z3.Or([tv(x) == v_int(z3.IntVal(i)) for i in ids] + [FALSE])


P_DOM = _suite_pred(lambda s: True)
P_CERT = _suite_pred(lambda s: s.cert_expected)                       # server sends Certificate (RFC 5246 7.4.2)
P_SKE = _suite_pred(lambda s: s.kx in ('DHE', 'ECDHE', 'SRP'))        # server sends ServerKeyExchange (7.4.3, RFC 5054 2.5)
P_SRP = _suite_pred(lambda s: s.kx == 'SRP')
P_ANON = _suite_pred(lambda s: s.auth == 'anon')
P_KX = dict((k, _suite_pred(lambda s, k=k: s.kx == k)) for k in ('RSA', 'DHE', 'ECDHE', 'SRP'))
# a CertificateRequest is legal only from a certificate-authenticated (non-anonymous) server (RFC 5246 7.4.4);
# for SRP suites client certificates are not used (the library's own policy, same as the task statement)
P_CR_OK = lambda x: z3.And(P_CERT(x), z3.Not(P_SRP(x)))

REG.note('C06', 'assumptions',
         'm2_client: typestate obligations quantify over the %d negotiable <=1.2 suites of specs/iana.py; that the '
         'negotiated suite is one of them is the ServerHello check of _clientGetServerHello plus the suite-filter '
         'contracts (contracts/suites.py)' % len(_DOM))

S_SH, S_CERT, S_SKE, S_CR, S_SHD = 0, 1, 2, 3, 4
HT = HandshakeType


def _allowed(hs, ht, s):
    """RFC 5246 7.3 figure 1, server flight after ServerHello, as transition guard"""
    return z3.Or(
        z3.And(ht == HT.certificate, hs == S_SH, P_CERT(s)),
        z3.And(ht == HT.server_key_exchange, P_SKE(s),
               z3.Or(z3.And(hs == S_SH, z3.Not(P_CERT(s))), z3.And(hs == S_CERT, P_CERT(s)))),
        z3.And(ht == HT.certificate_request, P_CR_OK(s), z3.Or(z3.And(hs == S_CERT, z3.Not(P_SKE(s))), hs == S_SKE)),
        z3.And(ht == HT.server_hello_done, z3.Or(z3.And(hs == S_CERT, z3.Not(P_SKE(s))), hs == S_SKE, hs == S_CR)))


def _next(hs, ht):
    return z3.If(ht == HT.certificate, S_CERT, z3.If(ht == HT.server_key_exchange, S_SKE,
                 z3.If(ht == HT.certificate_request, S_CR, z3.If(ht == HT.server_hello_done, S_SHD, -1))))


def _h_getMsg_kx(ex, recv, args, kwargs, st, fr, node):
    m, exp, sec = getmsg_model(ex, args, kwargs, st, node)
    s = st.env['cipherSuite']
    hs = st.ghost.get('hs', VInt(z3.IntVal(S_SH))).t
    OB(ex, st, 'kx:getMsg-expects-handshake-records-only@L%d' % node.lineno, exp == [ContentType.handshake])
    ht = MSG_HT(m.t)
    bad = gbool(st, 'hs_bad')
    st.ghost['hs_bad'] = VBool(z3.Or(bad, z3.Not(_allowed(hs, ht, s))))
    st.ghost['hs'] = VInt(_next(hs, ht))
    for nm, h in (('certificate', HT.certificate), ('server_key_exchange', HT.server_key_exchange),
                  ('certificate_request', HT.certificate_request)):
        if sec == [h]:
            st.ghost['msg_' + nm] = m
    if sec == [HT.server_key_exchange]:
        # constructorType of the ServerKeyExchange parser is the negotiated suite (parse dispatch, C20)
        OB(ex, st, 'kx:ServerKeyExchange-parsed-for-the-negotiated-suite',
           len(args) == 3 and tv(args[2]) == tv(s))
    if sec == [HT.certificate]:
        OB(ex, st, 'kx:Certificate-parsed-for-the-negotiated-certificate-type',
           len(args) == 3 and tv(args[2]) == tv(st.env['certificateType']))
    if sec == [HT.server_hello_done] and z3.is_true(z3.simplify(hs == hs)):
        # the site reached after a CertificateRequest was accepted: library-list form of RFC 5246 7.4.4
        def inl(lst):
            return z3.Or([tv(s) == v_int(z3.IntVal(i)) for i in lst])
        OB(ex, st, 'kx:CertificateRequest-accepted-only-for-cert-suites-and-never-SRP(lists)',
           z3.And(z3.Or(inl(CipherSuite.certAllSuites), inl(CipherSuite.ecdheEcdsaSuites), inl(CipherSuite.dheDsaSuites)),
                  z3.Not(inl(CipherSuite.srpAllSuites))))
        OB(ex, st, 'kx:CertificateRequest-accepted-only-from-certificate-authenticated-non-SRP-server(IANA)',
           z3.Implies(P_DOM(s), P_CR_OK(s)))
        cr = st.ghost.get('msg_cr_or_shd')
        OB(ex, st, 'kx:second-ServerHelloDone-wait-only-after-a-CertificateRequest',
           FALSE if cr is None else MSG_HT(cr.t) == HT.certificate_request)
    if sec is not None and sorted(sec) == sorted([HT.certificate_request, HT.server_hello_done]):
        st.ghost['msg_cr_or_shd'] = m
    return [Outcome('normal', st, m)]


def _h_getKey_kx(ex, recv, args, kwargs, st, fr, node):
    r = fresh_opaque('key_chain_tack')
    st.ghost['key_res'] = r
    st.ghost['key_cert_arg'] = args[0]
    st.ghost['key_settings_arg'] = args[1]
    st.events.append(('_clientGetKeyFromChain', list(args), r))
    ex.havoc_call('_clientGetKeyFromChain', st)
    # contract of _clientGetKeyFromChain (proved by task _clientGetKeyFromChain/result below): the returned chain
    # is the non-empty chain of the Certificate message
    st.assume(z3.And(GETITEM(r.t, to_val(VInt(1))) != v_none, v_truthy(GETITEM(r.t, to_val(VInt(1)))),
                     GETITEM(r.t, to_val(VInt(1))) == attr('cert_chain', args[0])))
    return [Outcome('normal', st, r)]


def _h_sigHashesToList_kx(ex, recv, args, kwargs, st, fr, node):
    r = fresh_opaque('valid_sig_algs')
    if 'certList' in kwargs and len(args) == 1:
        st.ghost['vsa'] = r
        st.ghost['vsa_settings'] = args[0]
        st.ghost['vsa_certlist'] = kwargs['certList']
    return [Outcome('normal', st, r)]


def _h_verifySKE(ex, recv, args, kwargs, st, fr, node):
    """KeyExchange.verifyServerKeyExchange(serverKeyExchange, publicKey, clientRandom, serverRandom, validSigAlgs):
    returns None when the signature verifies (and, in TLS 1.2, (hashAlg, signAlg) is in validSigAlgs), raises
    TLSIllegalParameterException / TLSDecryptionFailed otherwise (contract of contracts/kex.py)."""
    outs = []
    for cls in (TLSIllegalParameterException, TLSDecryptionFailed):
        s2 = st.fork()
        outs.append(Outcome('raise', s2, VExc(cls, [], 'verifyServerKeyExchange line %d' % node.lineno)))
    kr = st.ghost.get('key_res')
    ske = st.ghost.get('msg_server_key_exchange')
    vsa = st.ghost.get('vsa')
    env = st.env
    if kr is None or ske is None or vsa is None or len(args) != 5:
        ok = FALSE
    else:
        ok = z3.And(tv(args[0]) == ske.t,
                    tv(args[1]) == GETITEM(kr.t, to_val(VInt(0))),
                    tv(args[2]) == tv(env['clientRandom']), tv(args[3]) == tv(env['serverRandom']),
                    tv(args[4]) == vsa.t,
                    tv(st.ghost['vsa_settings']) == tv(env['settings']),
                    tv(st.ghost['vsa_certlist']) == GETITEM(kr.t, to_val(VInt(1))))
    st.ghost['ske_verified'] = VBool(ok)
    OB(ex, st, 'ske-sig:verify-call-uses(ske-received,end-entity-key-of-chain,both-randoms,sigalgs-of-settings)', ok)
    outs.append(Outcome('normal', st, VNone()))
    return outs


def _h_processSKE(ex, recv, args, kwargs, st, fr, node):
    from tlslite.errors import TLSInsufficientSecurity
    kr = st.ghost.get('key_res')
    s = st.env['cipherSuite']
    pk_ok = z3.And(z3.Implies(P_CERT(s), FALSE if kr is None else tv(args[0]) == GETITEM(kr.t, to_val(VInt(0)))),
                   z3.Implies(z3.Not(P_CERT(s)), tv(args[0]) == v_none))
    OB(ex, st, 'kx:premaster-derived-with-end-entity-key-of-the-recorded-chain(static-RSA:encrypted-to-it)',
       z3.Implies(P_DOM(s), pk_ok))
    ske = st.ghost.get('msg_server_key_exchange')
    OB(ex, st, 'kx:key-exchange-processes-the-received-ServerKeyExchange',
       z3.Implies(P_DOM(s), z3.And(z3.Implies(P_SKE(s), FALSE if ske is None else tv(args[1]) == ske.t),
                                   z3.Implies(z3.Not(P_SKE(s)), tv(args[1]) == v_none))))
    OB(ex, st, 'kx:receiver-is-the-keyExchange-object-of-the-caller', tv(recv) == tv(st.env['keyExchange']))
    outs = []
    for cls in (TLSInsufficientSecurity, TLSIllegalParameterException):
        outs.append(Outcome('raise', st.fork(), VExc(cls, [], 'processServerKeyExchange line %d' % node.lineno)))
    r = fresh_opaque('premaster')
    st.ghost['premaster'] = r
    outs.append(Outcome('normal', st, r))
    return outs


def _h_sendMsg_generic(ex, recv, args, kwargs, st, fr, node):
    st.events.append(('_sendMsg', list(args), None))
    n = st.ghost.get('n_sent', VInt(z3.IntVal(0)))
    st.ghost['n_sent'] = VInt(n.t + 1)
    ex.havoc_call('_sendMsg', st)
    return [Outcome('normal', st, fresh_opaque('sendMsg'))]


SPEC_KX = M2Spec(hooks={'_sendError': h_sendError, '_getMsg': _h_getMsg_kx, '_clientGetKeyFromChain': _h_getKey_kx,
                        '_sigHashesToList': _h_sigHashesToList_kx, 'verifyServerKeyExchange': _h_verifySKE,
                        'processServerKeyExchange': _h_processSKE, '_sendMsg': _h_sendMsg_generic},
                 pure={'getExtension', 'numBits', 'len', 'str'})


def _check_kx(api):
    n = api.normal_exits()
    OB(api, api.entry, 'kx:has-normal-exit', len(n) >= 1)
    for o in n:
        st = o.st
        s = st.env['cipherSuite']
        y = st.yields[-1] if st.yields else None
        if y is None or not isinstance(y, VTuple) or len(y.items) != 4:
            OB(api, st, 'kx:returns-4-tuple', False)
            continue
        premaster, chain, ccert, tack = y.items
        hs = st.ghost.get('hs', VInt(z3.IntVal(S_SH))).t
        OB(api, st, 'kx:accepted-server-flight-is-a-word-of-RFC5246-fig1-for-the-suite',
           z3.Implies(P_DOM(s), z3.And(z3.Not(gbool(st, 'hs_bad')), hs == S_SHD)))
        kr = st.ghost.get('key_res')
        cert_msg = st.ghost.get('msg_certificate')
        OB(api, st, 'ske-sig:server-chain-returned-only-after-verifyServerKeyExchange-returned-normally(signed-kx)',
           z3.Implies(z3.And(P_DOM(s), tv(chain) != v_none, P_SKE(s)), gbool(st, 'ske_verified')))
        OB(api, st, 'ske-sig:returned-chain-is-the-checked-chain-of-the-received-Certificate',
           z3.Implies(z3.And(P_DOM(s), tv(chain) != v_none),
                      FALSE if kr is None or cert_msg is None else
                      z3.And(tv(chain) == GETITEM(kr.t, to_val(VInt(1))), tv(st.ghost['key_cert_arg']) == cert_msg.t,
                             tv(st.ghost['key_settings_arg']) == tv(st.env['settings']))))
        OB(api, st, 'kx:chain-returned-iff-suite-has-certificate-authentication(IANA)',
           z3.Implies(P_DOM(s), P_CERT(s) == (tv(chain) != v_none)))
        OB(api, st, 'kx:premaster-is-the-key-exchange-result',
           FALSE if st.ghost.get('premaster') is None else tv(premaster) == st.ghost['premaster'].t)
        OB(api, st, 'kx:client-chain-forgotten-when-no-CertificateRequest',
           z3.Implies(hs == S_SHD, z3.Or(tv(ccert) == v_none, gbool(st, 'hs_bad'),
                                         FALSE if st.ghost.get('msg_cr_or_shd') is None else
                                         MSG_HT(st.ghost['msg_cr_or_shd'].t) == HT.certificate_request)))


task_pair('_clientKeyExchange/flight-order-and-ske-signature', ('C06', 'C20', 'C05'), TC + '_clientKeyExchange', SPEC_KX,
       check=_check_kx, opts=OPTS2, setup=_setup,
       doc='<=1.2 client: the accepted server flight Certificate/ServerKeyExchange/CertificateRequest/ServerHelloDone '
           'is a word of RFC 5246 fig. 1 for the IANA meaning of the suite; CertificateRequest only from a '
           'certificate-authenticated non-SRP server; the server chain is returned only after '
           'verifyServerKeyExchange returned normally on the received SKE with the end-entity key of that chain')


# =========================================================================================================
# _clientGetKeyFromChain / _check_certchain_with_settings  (C05: key = end-entity key of the same chain; C03: peer
# key size / curve / scheme inside the client's settings)
V_LEN = z3.Function('v_len', Val, I)


def _h_checkchain(ex, recv, args, kwargs, st, fr, node):
    r = fresh_opaque('checked_public_key')
    st.ghost['cc_res'] = r
    st.ghost['cc_chain'] = args[0]
    st.ghost['cc_settings'] = args[1]
    ex.havoc_call('_check_certchain_with_settings', st)
    return [Outcome('normal', st, r)]


SPEC_GK = M2Spec(hooks={'_sendError': h_sendError, '_check_certchain_with_settings': _h_checkchain},
                 pure={'getNumCerts', 'getTackExt', 'checkTack'})


def _check_gk(api):
    n = api.normal_exits()
    OB(api, api.entry, 'getkey:has-normal-exit', len(n) >= 1)
    for o in n:
        st = o.st
        y = st.yields[-1] if st.yields else None
        if y is None or not isinstance(y, VTuple) or len(y.items) != 3:
            OB(api, st, 'getkey:returns-3-tuple', False)
            continue
        pk, chain, tack = y.items
        cert = st.env['certificate']
        OB(api, st, 'getkey:returned-chain-is-the-chain-of-the-Certificate-message', tv(chain) == attr('cert_chain', cert))
        OB(api, st, 'getkey:returned-chain-is-non-empty',
           z3.And(v_truthy(tv(chain)), tv(chain) != v_none,
                  z3.Function('pure_getNumCerts_1', Val, Val)(attr('getNumCerts', tv(chain))) != to_val(VInt(0))))
        cr = st.ghost.get('cc_res')
        OB(api, st, 'getkey:returned-key-is-the-settings-checked-end-entity-key-of-that-chain',
           FALSE if cr is None else z3.And(tv(pk) == cr.t, tv(st.ghost['cc_chain']) == tv(chain),
                                           tv(st.ghost['cc_settings']) == tv(st.env['settings'])))


task_pair('_clientGetKeyFromChain/result', ('C05', 'C03'), TC + '_clientGetKeyFromChain', SPEC_GK, check=_check_gk,
       opts=OPTS2, setup=_setup,
       doc='returns (key, chain, tack) with chain = the non-empty chain of the Certificate message and key = the '
           'result of _check_certchain_with_settings(chain, settings)')


def _h_getEEPK(ex, recv, args, kwargs, st, fr, node):
    r = fresh_opaque('end_entity_key')
    st.ghost['eepk'] = r
    st.ghost['eepk_of'] = recv
    return [Outcome('normal', st, r)]


SPEC_CC = M2Spec(hooks={'_sendError': h_sendError, 'getEndEntityPublicKey': _h_getEEPK}, pure={'len', 'items', 'format'},
                 props_as_fields={'version'})


def _check_cc(api):
    n = api.normal_exits()
    OB(api, api.entry, 'certchain:has-normal-exit', len(n) >= 1)
    for o in n:
        st = o.st
        env = st.env
        y = st.yields[-1] if st.yields else None
        k = st.ghost.get('eepk')
        OB(api, st, 'certchain:returns-the-end-entity-public-key-of-the-argument-chain',
           FALSE if (y is None or k is None) else z3.And(tv(y) == k.t, tv(st.ghost['eepk_of']) == tv(env['cert_chain'])))
        settings = env['settings']
        ct = tv(env['cert_type'])
        is_ = lambda name: ct == to_val(VStr(name))
        ver = st.heap.get((env['self'].oid, 'version'))
        other = z3.Not(z3.Or([is_(x) for x in ('ecdsa', 'Ed25519', 'Ed448', 'mldsa44', 'mldsa65', 'mldsa87')]))
        if k is not None:
            klen = V_LEN(k.t)
            # C03: "peer key size ... lies inside what each side's own HandshakeSettings allow"
            OB(api, st, 'certchain:RSA/DSA-key-size-within-[minKeySize,maxKeySize]',
               z3.Implies(other, z3.And(z3.Not(V_LT(v_int(klen), attr('minKeySize', settings))),
                                        z3.Not(V_GT(v_int(klen), attr('maxKeySize', settings))))))
        for nm in ('Ed25519', 'Ed448', 'mldsa44', 'mldsa65', 'mldsa87'):
            OB(api, st, 'certchain:%s-certificate-only-if-in-more_sig_schemes' % nm,
               z3.Implies(is_(nm), V_IN(ct, attr('more_sig_schemes', settings))))
        # the alias-normalised curve name is a loop-havocked local that no longer exists after the join: find it as
        # the (unique) term tested for membership in settings.eccCurves on the way to this exit
        ecc = attr('eccCurves', settings)
        cands = _in_terms(st.pc, ecc)
        OB(api, st, 'certchain:ECDSA-curve(<=1.2)-in-settings.eccCurves-after-alias-normalisation',
           FALSE if (ver is None or len(cands) != 1 or 'curve_name' not in str(cands[0])) else
           z3.Implies(z3.And(is_('ecdsa'), V_LE(tv(ver), vtup(3, 3))), V_IN(cands[0], ecc)))
        OB(api, st, 'certchain:EdDSA-certificate-not-below-TLS1.2',
           FALSE if ver is None else z3.Implies(z3.Or(is_('Ed25519'), is_('Ed448')), z3.Not(V_LT(tv(ver), vtup(3, 3)))))
    # C19 "compatible settings connect": a certificate is refused only for a documented reason.  settings.eccCurves
    # governs the certificate's curve in TLS <= 1.2 only; in TLS 1.3 eccCurves names key-exchange groups and the
    # certificate is governed by the signature schemes (RFC 8446 4.2.3 / 4.2.7)
    k_hf = 0
    for o in api.raise_exits(NoReturn):
        a = o.val.args[0] if o.val.args else None
        if not (isinstance(a, VInt) and z3.is_int_value(z3.simplify(a.t)) and
                z3.simplify(a.t).as_long() == AlertDescription.handshake_failure):
            continue
        k_hf += 1
        st = o.st
        ct = tv(st.env['cert_type'])
        ver = st.heap.get((st.env['self'].oid, 'version'))
        OB(api, st, 'certchain:refusal-for-a-curve-outside-eccCurves-only-in-TLS<=1.2#%d' % k_hf,
           FALSE if ver is None else z3.Implies(ct == to_val(VStr('ecdsa')), V_LE(tv(ver), vtup(3, 3))))
    OB(api, api.entry, 'certchain:cover:curve-refusal-exit-examined', k_hf >= 1)


def _in_terms(pc, container):
    out, seen, todo = [], set(), list(pc)
    while todo:
        t = todo.pop()
        if t.get_id() in seen:
            continue
        seen.add(t.get_id())
        if z3.is_app(t):
            if t.decl().name() == 'v_in' and t.arg(1).eq(container) and not any(t.arg(0).eq(x) for x in out):
                out.append(t.arg(0))
            todo.extend(t.children())
    return out


task_pair('_check_certchain_with_settings/peer-key-inside-settings', ('C03', 'C05', 'C19'), TC + '_check_certchain_with_settings',
       SPEC_CC, check=_check_cc, opts=OPTS2, setup=_setup_fields('version'),
       doc='returns cert_chain.getEndEntityPublicKey(); RSA/DSA size within [minKeySize, maxKeySize]; EdDSA / ML-DSA '
           'only when enabled in more_sig_schemes; ECDSA curve (<=1.2) in settings.eccCurves')


# =========================================================================================================
# 6. _getFinished / _sendFinished (shared by both roles; C04 Finished over the transcript, C06 CCS/Finished order)
L_SERVER_FIN = to_val(lift_py(b"server finished"))
L_CLIENT_FIN = to_val(lift_py(b"client finished"))
CT = ContentType


def _self_field(st, name):
    v = st.heap.get((st.env['self'].oid, name))
    return None if v is None else tv(v)


def _getmsg_site(fr, node):
    """ordinal (source order) of this `_getMsg` call among the `_getMsg` calls of the function under analysis"""
    import ast as _ast
    lines = sorted(set(n.lineno for n in _ast.walk(fr.fs.node) if isinstance(n, _ast.Call) and
                       isinstance(n.func, _ast.Attribute) and n.func.attr == '_getMsg'))
    return lines.index(node.lineno)


def _h_getMsg_fin(ex, recv, args, kwargs, st, fr, node):
    n_before = st.ghost['hh_msgs'].t
    k = st.ghost['n_getfin'].t
    m, exp, sec = getmsg_model(ex, args, kwargs, st, node)
    st.ghost['n_getfin'] = VInt(k + 1)
    is_ccs = MSG_CT(m.t) == CT.change_cipher_spec
    st.ghost['n_ccs'] = VInt(z3.If(is_ccs, st.ghost['n_ccs'].t + 1, st.ghost['n_ccs'].t))
    old = st.ghost.get('ccs_msg')
    st.ghost['ccs_msg'] = VOpaque(z3.If(is_ccs, m.t, v_none if old is None else old.t))      # last CCS received
    site = _getmsg_site(fr, node)
    if site == 0:
        hs_admitted = CT.handshake in exp
        OB(ex, st, 'fin:first-wait-is-the-first-and-admits-only-ChangeCipherSpec-or-NewSessionTicket',
           z3.And(k == 0, z3.BoolVal(CT.change_cipher_spec in exp and set(exp) <= set([CT.handshake, CT.change_cipher_spec])
                                     and (not hs_admitted or sec == [HT.new_session_ticket]))))
        st.ghost['first_msg'] = m
        is_client = _self_field(st, '_client')
        # RFC 5077 3.3: NewSessionTicket is a message of the SERVER; a server waiting for the client's
        # ChangeCipherSpec must not admit it (DESIGN.md F14)
        OB(ex, st, 'fin:NewSessionTicket-admitted-only-in-the-client-role(RFC5077-3.3)',
           FALSE if is_client is None else z3.Implies(z3.BoolVal(hs_admitted), v_truthy(is_client)))
    elif site == 1 and exp == [CT.change_cipher_spec]:
        f = st.ghost.get('first_msg')
        OB(ex, st, 'fin:second-wait-admits-only-ChangeCipherSpec-and-only-after-a-NewSessionTicket',
           FALSE if f is None else z3.And(k == 1, MSG_CT(f.t) == CT.handshake, MSG_HT(f.t) == HT.new_session_ticket))
    elif exp == [CT.handshake] and sec == [HT.next_protocol]:
        OB(ex, st, 'fin:NextProtocol-only-when-expected-and-after-read-state-change',
           z3.And(gbool(st, 'read_state_changed'), T_(st.env['expect_next_protocol'])))
    elif exp == [CT.handshake] and sec == [HT.finished]:
        OB(ex, st, 'fin:Finished-awaited-only-after-exactly-one-ChangeCipherSpec-and-read-state-change',
           z3.And(gbool(st, 'read_state_changed'), st.ghost['n_ccs'].t == 1))
        ck = st.ghost.get('ck_hh')
        OB(ex, st, 'fin:expected-verify_data-computed-on-the-transcript-BEFORE-this-Finished-is-hashed',
           FALSE if ck is None else z3.And(ck.t == n_before, gbool(st, 'ck_done')))
        st.ghost['fin_msg'] = m
    else:
        OB(ex, st, 'fin:unexpected-_getMsg-site@L%d' % node.lineno, False)
    return [Outcome('normal', st, m)]


def _h_Ticket(ex, recv, args, kwargs, st, fr, node):
    is_client = _self_field(st, '_client')
    OB(ex, st, 'fin:NewSessionTicket-stored-only-by-the-client-role(RFC5077-3.3)',
       FALSE if is_client is None else v_truthy(is_client))
    f = st.ghost.get('first_msg')
    OB(ex, st, 'fin:stored-ticket-is-the-received-one-bound-to-this-master-secret-and-suite',
       FALSE if f is None or len(args) != 4 else
       z3.And(tv(args[0]) == attr('ticket', f.t), tv(args[1]) == attr('ticket_lifetime', f.t),
              tv(args[2]) == tv(st.env['masterSecret']), tv(args[3]) == tv(st.env['cipherSuite'])))
    return [Outcome('normal', st, fresh_opaque('Ticket'))]


def _h_changeReadState(ex, recv, args, kwargs, st, fr, node):
    ccs = st.ghost.get('ccs_msg')
    OB(ex, st, 'fin:read-state-switched-after-exactly-one-ChangeCipherSpec(RFC5246-7.1)', st.ghost['n_ccs'].t == 1)
    OB(ex, st, 'fin:read-state-switched-after-a-ChangeCipherSpec-record',
       FALSE if ccs is None else MSG_CT(tv(ccs)) == CT.change_cipher_spec)
    OB(ex, st, 'fin:read-state-switched-only-for-ChangeCipherSpec-type-1',
       FALSE if ccs is None else attr('type', ccs) == to_val(VInt(1)))
    OB(ex, st, 'fin:read-state-switched-once', z3.Not(gbool(st, 'read_state_changed')))
    gset(st, 'read_state_changed')
    ex.havoc_call('_changeReadState', st)
    return [Outcome('normal', st, VNone())]


def _h_calc_key_getfin(ex, recv, args, kwargs, st, fr, node):
    r = fresh_opaque('verify_data_expected')
    is_client = _self_field(st, '_client')
    hh = _self_field(st, '_handshake_hash')
    ver = _self_field(st, 'version')
    hh_arg = kwargs.get('handshake_hashes')
    ok = FALSE
    if is_client is not None and len(args) == 4 and hh_arg is not None:
        ok = z3.And(tv(args[1]) == tv(st.env['masterSecret']), tv(args[2]) == tv(st.env['cipherSuite']),
                    z3.Implies(v_truthy(is_client), tv(args[3]) == L_SERVER_FIN),
                    z3.Implies(z3.Not(v_truthy(is_client)), tv(args[3]) == L_CLIENT_FIN),
                    TRUE if hh is None else tv(hh_arg) == hh,
                    TRUE if ver is None else tv(args[0]) == ver,
                    tv(kwargs.get('output_length', VNone())) == to_val(VInt(12)))
    OB(ex, st, 'fin:expected-verify_data=calc_key(version,masterSecret,suite,PEER-finished-label,connection-transcript,12)', ok)
    gset(st, 'ck_done')
    st.ghost['ck_hh'] = VInt(st.ghost['hh_msgs'].t)
    st.ghost['ck_res'] = r
    return [Outcome('normal', st, r)]


REG.note('C04', 'trusted',
         'm2_client: calc_key(version, secret, suite, label, handshake_hashes=H, output_length) reads the digest of H '
         'during the call (H is passed by reference, not as a copy): the value is a function of the transcript at '
         'call time (contracts/kdf.py proves calc_key against the PRF definitions)')

SPEC_GF = M2Spec(hooks={'_sendError': h_sendError, '_getMsg': _h_getMsg_fin, 'Ticket': _h_Ticket,
                        '_changeReadState': _h_changeReadState, 'calc_key': _h_calc_key_getfin},
                 props_as_fields={'_client', 'version'}, stable_fields={'_client'}, pure={'len'})

REG.note('C06', 'trusted',
         'm2_client: TLSRecordLayer._client is assigned only by _handshakeStart (tlsrecordlayer.py:1430), which no '
         'callee of the Finished exchange reaches on a live handshake (it raises unless the connection is closed); '
         'the name-based frame scan cannot see this, so the field is declared stable for _getFinished/_sendFinished')


def _check_gf(api):
    n = api.normal_exits()
    OB(api, api.entry, 'fin:has-normal-exit', len(n) >= 1)
    for o in n:
        st = o.st
        fin, ck = st.ghost.get('fin_msg'), st.ghost.get('ck_res')
        OB(api, st, 'fin:normal-exit-only-if-received-verify_data-equals-expected',
           FALSE if fin is None or ck is None else attr('verify_data', fin.t) == ck.t)
        OB(api, st, 'fin:exactly-one-ChangeCipherSpec-consumed', st.ghost['n_ccs'].t == 1)
        OB(api, st, 'fin:read-state-changed', gbool(st, 'read_state_changed'))


task_pair('_getFinished/ccs-then-finished-over-transcript', ('C04', 'C06'), TC + '_getFinished', SPEC_GF, check=_check_gf,
       opts=OPTS2, setup=_setup_fields('_client', 'version', '_handshake_hash'),
       defects=('fin:NewSessionTicket-admitted-only-in-the-client-role', 'fin:NewSessionTicket-stored-only-by-the-client-role'),
       defect_props=('C06',),
       defect_doc='DESIGN F14: the shared _getFinished admits and stores a NewSessionTicket also in the server role',
       doc='<=1.2: [NewSessionTicket] ChangeCipherSpec(type 1) -> read state switched once -> [NextProtocol] -> '
           'Finished whose verify_data equals calc_key(master, suite, peer label, transcript before the Finished)')


# =========================================================================================================
# 5. _clientResume  (C13: abbreviated handshake only when the server resumed; otherwise full handshake)
def _resume_echo(st):
    """RFC 5246 7.3 / RFC 5077 3.4: the server resumed iff it echoes the offered, non-empty session id"""
    session, sh = st.env['session'], st.env['serverHello']
    return z3.And(T_(session), T_(attr('sessionID', session)), attr('session_id', sh) == attr('sessionID', session))


def _h_calcPending_res(ex, recv, args, kwargs, st, fr, node):
    session, sh = st.env['session'], st.env['serverHello']
    OB(ex, st, 'resume:abbreviated-path-entered-only-if-ServerHello-echoes-the-offered-session-id(RFC5246-7.3,RFC5077-3.4)',
       _resume_echo(st))
    OB(ex, st, 'resume:ServerHello-suite-equals-cached-suite', attr('cipher_suite', sh) == attr('cipherSuite', session))
    OB(ex, st, 'resume:keys-from-cached-master-secret-and-fresh-randoms',
       z3.And(tv(args[0]) == attr('cipherSuite', session), tv(args[1]) == attr('masterSecret', session),
              tv(args[2]) == tv(st.env['clientRandom']), tv(args[3]) == attr('random', sh)) if len(args) >= 4 else FALSE)
    gset(st, 'pending_calculated')
    ex.havoc_call('_calcPendingStates', st)
    return [Outcome('normal', st, VNone())]


def _h_getFinished_res(ex, recv, args, kwargs, st, fr, node):
    session = st.env['session']
    OB(ex, st, 'resume:server-Finished-awaited-first(RFC5246-fig2)-with-cached-secret',
       z3.And(gbool(st, 'pending_calculated'), z3.Not(gbool(st, 'sent_fin')),
              tv(args[0]) == attr('masterSecret', session), tv(args[1]) == attr('cipherSuite', session))
       if len(args) >= 2 else FALSE)
    # KNOWN DEFECT F4 (DESIGN.md): with a cached ticket the abbreviated path is taken unconditionally, and
    # _getFinished admits only NewSessionTicket/ChangeCipherSpec: a server that declined the ticket (rotated key) and
    # continues with Certificate gets unexpected_message instead of a full handshake
    OB(ex, st, 'resume:declined-ticket-falls-back-to-full-handshake'
               '(wait-for-server-CCS-only-after-session-id-echo)(RFC5077-3.4)', _resume_echo(st))
    gset(st, 'got_fin')
    ex.havoc_call('_getFinished', st)
    return [Outcome('normal', st, fresh_opaque('getFinished'))]


def _h_sendFinished_res(ex, recv, args, kwargs, st, fr, node):
    session = st.env['session']
    OB(ex, st, 'resume:client-Finished-sent-only-after-server-Finished-verified',
       z3.And(gbool(st, 'got_fin'), tv(args[0]) == attr('masterSecret', session),
              tv(args[1]) == attr('cipherSuite', session)) if len(args) >= 2 else FALSE)
    gset(st, 'sent_fin')
    ex.havoc_call('_sendFinished', st)
    return [Outcome('normal', st, fresh_opaque('sendFinished'))]


def _on_store_session_res(ex, obj, val, st, fr, node):
    OB(ex, st, 'resume:connection.session-set-to-the-cached-session-only-after-both-Finished',
       z3.And(gbool(st, 'got_fin'), gbool(st, 'sent_fin'), tv(val) == tv(st.env['session'])))


def _on_yield_res(ex, val, st, fr, ynode):
    if isinstance(val, VStr) and val.s == 'resumed_and_finished':
        gset(st, 'yielded_resumed')
        OB(ex, st, 'resume:resumed_and_finished-reported-only-after-both-Finished',
           z3.And(gbool(st, 'got_fin'), gbool(st, 'sent_fin')))


SPEC_RES = M2Spec(hooks={'_sendError': h_sendError, '_calcPendingStates': _h_calcPending_res,
                         '_getFinished': _h_getFinished_res, '_sendFinished': _h_sendFinished_res},
                  on_store={'session': _on_store_session_res}, on_yield=_on_yield_res, pure={'flush'})


def _check_res(api):
    n = api.normal_exits()
    OB(api, api.entry, 'resume:has-normal-exit', len(n) >= 1)
    for o in n:
        st = o.st
        OB(api, st, 'resume:reports-resumed-iff-abbreviated-handshake-done',
           gbool(st, 'yielded_resumed') == z3.And(gbool(st, 'got_fin'), gbool(st, 'sent_fin')))
        # not resumed: nothing consumed / sent, the caller continues with the full handshake
        OB(api, st, 'resume:no-session-id-echo-and-no-ticket=>nothing-read-or-sent(full-handshake-continues)',
           z3.Implies(z3.And(z3.Not(_resume_echo(st)),
                             z3.Not(z3.And(T_(st.env['session']), T_(attr('tls_1_0_tickets', st.env['session']))))),
                      z3.And(z3.Not(gbool(st, 'got_fin')), z3.Not(gbool(st, 'sent_fin')),
                             z3.Not(gbool(st, 'yielded_resumed')), z3.Not(gbool(st, 'pending_calculated')))))
        OB(api, st, 'resume:session-id-echo=>abbreviated-handshake', z3.Implies(_resume_echo(st), gbool(st, 'yielded_resumed')))


task_pair('_clientResume/decision', ('C13', 'C06'), TC + '_clientResume', SPEC_RES, check=_check_res, opts=OPTS2,
       setup=_setup,
       defects=('resume:abbreviated-path-entered-only-if', 'resume:declined-ticket-falls-back'),
       defect_props=('C13',),
       defect_doc='DESIGN F4: with a cached <=1.2 ticket the abbreviated path is entered without any sign that the '
                  'server resumed; a declined ticket aborts with unexpected_message instead of a full handshake',
       doc='the abbreviated handshake (server CCS/Finished first, keys from the cached master secret, cached suite) is '
           'entered only if the ServerHello echoes the offered non-empty session id; otherwise nothing is consumed and '
           'the full handshake continues.  Expected refutations (F4): the `or session.tls_1_0_tickets` disjunct')


# =========================================================================================================
# _sendFinished (shared) and _clientFinished
def _h_sendMsg_sf(ex, recv, args, kwargs, st, fr, node):
    k = st.ghost['n_sent'].t
    m = args[0]
    st.ghost['n_sent'] = VInt(k + 1)
    ccs = st.ghost.get('new_ccs')
    fin = st.ghost.get('new_fin')
    is_ccs = ccs is not None and tv(m).eq(ccs.t)
    is_fin = fin is not None and tv(m).eq(fin.t)
    if is_ccs:
        OB(ex, st, 'sendfin:ChangeCipherSpec-sent-before-write-state-change-and-before-Finished',
           z3.And(z3.Not(gbool(st, 'write_state_changed')), z3.Not(gbool(st, 'fin_sent')), z3.Not(gbool(st, 'ccs_sent'))))
        gset(st, 'ccs_sent')
    elif is_fin:
        OB(ex, st, 'sendfin:Finished-sent-after-CCS-and-write-state-change(under-new-keys)',
           z3.And(gbool(st, 'ccs_sent'), gbool(st, 'write_state_changed'), z3.Not(gbool(st, 'fin_sent'))))
        gset(st, 'fin_sent')
    else:
        # NextProtocol (client, NPN): between state change and Finished, encrypted (draft-agl-tls-nextprotoneg-04)
        OB(ex, st, 'sendfin:only-NextProtocol-between-write-state-change-and-Finished',
           z3.And(gbool(st, 'write_state_changed'), z3.Not(gbool(st, 'fin_sent')),
                  FALSE if st.ghost.get('new_np') is None else tv(m) == st.ghost['new_np'].t))
        # it is hashed into the transcript before verify_data is computed
        st.ghost['hh_msgs'] = VInt(st.ghost['hh_msgs'].t + 1)
    ex.havoc_call('_sendMsg', st)
    return [Outcome('normal', st, fresh_opaque('sendMsg'))]


def _h_CCS_new(ex, recv, args, kwargs, st, fr, node):
    r = fresh_opaque('new_ChangeCipherSpec')
    st.ghost['new_ccs'] = r
    return [Outcome('normal', st, r)]


def _h_changeWriteState(ex, recv, args, kwargs, st, fr, node):
    OB(ex, st, 'sendfin:write-state-switched-once-after-CCS-sent', z3.And(gbool(st, 'ccs_sent'),
                                                                       z3.Not(gbool(st, 'write_state_changed'))))
    gset(st, 'write_state_changed')
    ex.havoc_call('_changeWriteState', st)
    return [Outcome('normal', st, VNone())]


def _h_calc_key_sf(ex, recv, args, kwargs, st, fr, node):
    r = fresh_opaque('verify_data_own')
    is_client = _self_field(st, '_client')
    hh = _self_field(st, '_handshake_hash')
    hh_arg = kwargs.get('handshake_hashes')
    ok = FALSE
    if is_client is not None and len(args) == 4 and hh_arg is not None:
        ok = z3.And(tv(args[1]) == tv(st.env['masterSecret']), tv(args[2]) == tv(st.env['cipherSuite']),
                    z3.Implies(v_truthy(is_client), tv(args[3]) == L_CLIENT_FIN),
                    z3.Implies(z3.Not(v_truthy(is_client)), tv(args[3]) == L_SERVER_FIN),
                    TRUE if hh is None else tv(hh_arg) == hh,
                    tv(kwargs.get('output_length', VNone())) == to_val(VInt(12)))
    OB(ex, st, 'sendfin:verify_data=calc_key(version,masterSecret,suite,OWN-finished-label,connection-transcript,12)', ok)
    OB(ex, st, 'sendfin:verify_data-computed-before-own-Finished-is-hashed', z3.Not(gbool(st, 'fin_sent')))
    st.ghost['own_vd'] = r
    return [Outcome('normal', st, r)]


def _h_create_sf(ex, recv, args, kwargs, st, fr, node):
    # Finished(version).create(verifyData) / NextProtocol().create(nextProto)
    r = fresh_opaque('created_msg')
    vd = st.ghost.get('own_vd')
    if vd is not None and len(args) == 1 and tv(args[0]).eq(vd.t):
        st.ghost['new_fin'] = r
    elif len(args) == 1 and tv(args[0]).eq(tv(st.env.get('nextProto', VNone()))):
        st.ghost['new_np'] = r
    return [Outcome('normal', st, r)]


def _h_serverSendTickets(ex, recv, args, kwargs, st, fr, node):
    is_client = _self_field(st, '_client')
    OB(ex, st, 'sendfin:NewSessionTicket-sent-only-by-the-server-role-before-CCS',
       z3.And(z3.Not(gbool(st, 'ccs_sent')), T_(st.env['send_session_ticket'])))
    ex.havoc_call('_serverSendTickets', st)
    return [Outcome('normal', st, fresh_opaque('tickets'))]


SPEC_SF = M2Spec(hooks={'_sendError': h_sendError, '_sendMsg': _h_sendMsg_sf, 'ChangeCipherSpec': _h_CCS_new,
                        '_changeWriteState': _h_changeWriteState, 'calc_key': _h_calc_key_sf, 'create': _h_create_sf,
                        '_serverSendTickets': _h_serverSendTickets},
                 props_as_fields={'_client', 'version'}, stable_fields={'_client'}, pure={'flush', 'min'})


def _check_sf(api):
    n = api.normal_exits()
    OB(api, api.entry, 'sendfin:has-normal-exit', len(n) >= 1)
    for o in n:
        OB(api, o.st, 'sendfin:on-return-CCS-sent,write-state-changed,Finished-sent',
           z3.And(gbool(o.st, 'ccs_sent'), gbool(o.st, 'write_state_changed'), gbool(o.st, 'fin_sent')))


task_pair('_sendFinished/ccs-statechange-finished', ('C04', 'C06'), TC + '_sendFinished', SPEC_SF, check=_check_sf,
       opts=OPTS2, setup=_setup_fields('_client', 'version', '_handshake_hash'),
       doc='<=1.2: ChangeCipherSpec, then the write state changes, then [NextProtocol], then a Finished whose '
           'verify_data is calc_key(master, suite, own label, transcript so far)')


def _h_calcMS(ex, recv, args, kwargs, st, fr, node):
    r = fresh_opaque('masterSecret')
    env = st.env
    OB(ex, st, 'clifin:master-secret-from(premaster,suite,clientRandom,serverRandom)',
       z3.And(tv(args[0]) == tv(env['premasterSecret']), tv(args[1]) == tv(env['cipherSuite']),
              tv(args[2]) == tv(env['clientRandom']), tv(args[3]) == tv(env['serverRandom'])) if len(args) == 4 else FALSE)
    st.ghost['ms'] = r
    return [Outcome('normal', st, r)]


def _h_calcPending_cf(ex, recv, args, kwargs, st, fr, node):
    env = st.env
    ms = st.ghost.get('ms')
    OB(ex, st, 'clifin:pending-states-from-that-master-secret-and-the-negotiated-suite',
       FALSE if ms is None or len(args) < 4 else
       z3.And(tv(args[0]) == tv(env['cipherSuite']), tv(args[1]) == ms.t, tv(args[2]) == tv(env['clientRandom']),
              tv(args[3]) == tv(env['serverRandom'])))
    gset(st, 'pending_calculated')
    ex.havoc_call('_calcPendingStates', st)
    return [Outcome('normal', st, VNone())]


def _h_sendFinished_cf(ex, recv, args, kwargs, st, fr, node):
    ms = st.ghost.get('ms')
    OB(ex, st, 'clifin:client-Finished-first(RFC5246-fig1)-after-pending-states',
       FALSE if ms is None else z3.And(gbool(st, 'pending_calculated'), z3.Not(gbool(st, 'got_fin')),
                                       tv(args[0]) == ms.t, tv(args[1]) == tv(st.env['cipherSuite'])))
    gset(st, 'sent_fin')
    ex.havoc_call('_sendFinished', st)
    return [Outcome('normal', st, fresh_opaque('sendFinished'))]


def _h_getFinished_cf(ex, recv, args, kwargs, st, fr, node):
    ms = st.ghost.get('ms')
    OB(ex, st, 'clifin:server-Finished-checked-against-the-same-master-secret-and-suite',
       FALSE if ms is None else z3.And(gbool(st, 'sent_fin'), tv(args[0]) == ms.t,
                                       tv(args[1]) == tv(st.env['cipherSuite'])))
    gset(st, 'got_fin')
    ex.havoc_call('_getFinished', st)
    return [Outcome('normal', st, fresh_opaque('getFinished'))]


SPEC_CF = M2Spec(hooks={'_sendError': h_sendError, '_calculate_master_secret': _h_calcMS,
                        '_calcPendingStates': _h_calcPending_cf, '_sendFinished': _h_sendFinished_cf,
                        '_getFinished': _h_getFinished_cf}, pure={'flush'})


def _check_cf(api):
    n = api.normal_exits()
    OB(api, api.entry, 'clifin:has-normal-exit', len(n) >= 1)
    for o in n:
        st = o.st
        y = st.yields[-1] if st.yields else None
        ms = st.ghost.get('ms')
        OB(api, st, 'clifin:returns-the-master-secret-only-after-the-server-Finished-was-verified',
           FALSE if y is None or ms is None else z3.And(tv(y) == ms.t, gbool(st, 'got_fin'), gbool(st, 'sent_fin')))


task_pair('_clientFinished/order', ('C04', 'C06', 'C05'), TC + '_clientFinished', SPEC_CF, check=_check_cf, opts=OPTS2,
       setup=_setup,
       doc='full handshake: master secret from (premaster, suite, randoms); pending states; client CCS/Finished first, '
           'then the server Finished is verified; the master secret is returned only afterwards')


# =========================================================================================================
# _handshakeClientAsyncHelper: the <=1.2 client flow as a whole (C04 downgrade sentinel, C20 key-exchange class
# dispatch, C05 what is recorded in the Session, C06 order of the sub-flows, C13 only valid sessions are offered)
S12 = to_val(lift_py(TLS_1_2_DOWNGRADE_SENTINEL))
S11 = to_val(lift_py(TLS_1_1_DOWNGRADE_SENTINEL))
V_SLICE = z3.Function('v_slice', Val, Val, Val, Val)
(O_START, O_CH, O_SH, O_TLS13, O_RESUME, O_KX, O_FIN, O_SESSION) = range(8)


def _order(st, frm, to, ex, name):
    cur = st.ghost['order'].t
    OB(ex, st, name, z3.Or([cur == f for f in frm]))
    st.ghost['order'] = VInt(z3.IntVal(to))


def _h_valid(ex, recv, args, kwargs, st, fr, node):
    r = fresh_opaque('session_valid')
    st.ghost['valid_res'] = r
    st.ghost['valid_of'] = recv
    return [Outcome('normal', st, r)]


def _h_sendCH(ex, recv, args, kwargs, st, fr, node):
    _order(st, [O_START], O_CH, ex, 'helper:ClientHello-is-the-first-step')
    sess = args[1]
    vr = st.ghost.get('valid_res')
    orig = st.ghost['entry_session']
    OB(ex, st, 'helper:cached-session-offered-only-if-session.valid()(completed,resumable,has-id)',
       z3.Implies(T_(sess), FALSE if vr is None else z3.And(v_truthy(vr.t), tv(st.ghost['valid_of']) == orig.t,
                                                            tv(sess) == orig.t)))
    OB(ex, st, 'helper:offer-built-from-the-validated-settings', tv(args[0]) == tv(st.env['settings']))
    r = fresh_opaque('clientHello')
    st.ghost['ch'] = r
    st.assume(v_truthy(r.t))
    ex.havoc_call('_clientSendClientHello', st)
    return [Outcome('normal', st, r)]


# may be assumed in the caller only when obligation `sh:supported_versions-with-legacy_version<1.2-is-rejected` of
# _clientGetServerHello is PROVED (it is refuted on the pinned tree: confirmed defect); M2C_ASSUME_SV_FIX=1 is for
# checking a repaired tree
SH_REJECTS_SV_WITH_LEGACY_LT_12 = True     # /repo fix cca360d is in the tree; the task '_clientGetServerHello/known-defects' proves it


def _h_getSH(ex, recv, args, kwargs, st, fr, node):
    _order(st, [O_CH], O_SH, ex, 'helper:ServerHello-awaited-after-ClientHello')
    ch = st.ghost.get('ch')
    OB(ex, st, 'helper:ServerHello-checked-against-the-sent-ClientHello-and-the-validated-settings',
       FALSE if ch is None else z3.And(tv(args[2]) == ch.t, tv(args[0]) == tv(st.env['settings']),
                                       tv(args[1]) == tv(st.env['session'])))
    r = fresh_opaque('serverHello')
    st.ghost['sh'] = r
    st.assume(v_truthy(r.t))
    ex.havoc_call('_clientGetServerHello', st)
    # contract of _clientGetServerHello (task _clientGetServerHello/within-offer-and-policy): the connection version
    # is the negotiated one = supported_versions.selected if legacy version >= 1.2 and the extension is present,
    # else the legacy version
    ver = fresh_opaque('negotiated_version')
    st.heap[(st.env['self'].oid, 'version')] = ver
    st.ghost['neg_version'] = ver
    ext = getext(r, ExtensionType.supported_versions)
    sv = attr('server_version', r)
    use_ext = z3.And(V_GE(sv, vtup(3, 3)), v_truthy(ext))
    st.assume(z3.And(z3.Implies(use_ext, ver.t == attr('version', ext)),
                     z3.Implies(z3.Not(use_ext), ver.t == sv)))
    st.assume(V_GE(sv, vtup(3, 3)) == z3.Not(V_LT(sv, vtup(3, 3))))         # total order on version tuples
    if SH_REJECTS_SV_WITH_LEGACY_LT_12:
        st.assume(z3.Not(z3.And(v_truthy(ext), V_LT(sv, vtup(3, 3)))))
    return [Outcome('normal', st, r)]


def _sentinel_ok(st):
    """RFC 8446 4.1.3, client side"""
    sh, ver = st.ghost.get('sh'), st.ghost.get('neg_version')
    if sh is None or ver is None:
        return FALSE
    maxv = attr('maxVersion', st.env['settings'])
    last8 = V_SLICE(attr('random', sh), v_int(z3.IntVal(0) - 8), v_none)
    return z3.And(z3.Implies(z3.And(V_GT(maxv, vtup(3, 3)), V_LE(ver.t, vtup(3, 3))), z3.And(last8 != S12, last8 != S11)),
                  z3.Implies(z3.And(maxv == vtup(3, 3), V_LT(ver.t, vtup(3, 3))), last8 != S11))


def _h_tls13(ex, recv, args, kwargs, st, fr, node):
    _order(st, [O_SH], O_TLS13, ex, 'helper:TLS1.3-flow-entered-right-after-ServerHello')
    sh, ver = st.ghost['sh'], st.ghost['neg_version']
    ext = getext(sh, ExtensionType.supported_versions)
    OB(ex, st, 'helper:TLS1.3-flow-only-if-ServerHello.supported_versions>1.2', z3.And(v_truthy(ext),
                                                                                     V_GT(attr('version', ext), vtup(3, 3))))
    OB(ex, st, 'helper:TLS1.3-flow-only-if-the-negotiated-connection-version-is-1.3(legacy_version>=1.2,RFC8446-4.1.3)',
       ver.t == attr('version', ext))
    OB(ex, st, 'helper:downgrade-sentinel-checked-before-continuing(RFC8446-4.1.3)', _sentinel_ok(st))
    r = fresh_opaque('tls13_result')
    st.ghost['tls13_res'] = r
    ex.havoc_call('_clientTLS13Handshake', st)
    return [Outcome('normal', st, r)]


def _h_selectNP(ex, recv, args, kwargs, st, fr, node):
    sh = st.ghost['sh']
    ext = getext(sh, ExtensionType.supported_versions)
    OB(ex, st, 'helper:<=1.2-flow-only-if-no-supported_versions>1.2',
       z3.Not(z3.And(v_truthy(ext), V_GT(attr('version', ext), vtup(3, 3)))))
    OB(ex, st, 'helper:downgrade-sentinel-checked-before-<=1.2-flow(RFC8446-4.1.3)', _sentinel_ok(st))
    return None


def _h_resume(ex, recv, args, kwargs, st, fr, node):
    _order(st, [O_SH], O_RESUME, ex, 'helper:resumption-decision-right-after-ServerHello')
    sh, ch = st.ghost['sh'], st.ghost['ch']
    OB(ex, st, 'helper:resumption-decided-on(offered-session,this-ServerHello,this-client-random)',
       z3.And(tv(args[0]) == tv(st.env['session']), tv(args[1]) == sh.t, tv(args[2]) == attr('random', ch.t)))
    r = fresh_opaque('resume_result')
    st.ghost['resume_res'] = r
    ex.havoc_call('_clientResume', st)
    return [Outcome('normal', st, r)]


def _mk_kx_hook(kind):
    def h(ex, recv, args, kwargs, st, fr, node):
        s = st.env['cipherSuite']
        sh, ch = st.ghost['sh'], st.ghost['ch']
        OB(ex, st, 'kxclass:%s-key-exchange-object-only-for-IANA-%s-suites' % (kind, kind), z3.Implies(P_DOM(s), P_KX[kind](s)))
        OB(ex, st, 'kxclass:%s-object-built-for(negotiated-suite,sent-ClientHello,received-ServerHello)' % kind,
           z3.And(tv(args[0]) == tv(s), tv(args[1]) == ch.t, tv(args[2]) == sh.t, tv(s) == attr('cipher_suite', sh.t)))
        r = fresh_opaque('keyExchange_' + kind)
        st.ghost['kx_obj'] = r
        return [Outcome('normal', st, r)]
    return h


def _h_clientKX(ex, recv, args, kwargs, st, fr, node):
    _order(st, [O_RESUME], O_KX, ex, 'helper:key-exchange-after-resumption-was-ruled-out')
    sh, ch, ko = st.ghost['sh'], st.ghost['ch'], st.ghost.get('kx_obj')
    rr = st.ghost.get('resume_res')
    OB(ex, st, 'helper:full-handshake-only-if-_clientResume-did-not-report-resumption',
       FALSE if rr is None else rr.t != to_val(VStr('resumed_and_finished')))
    OB(ex, st, 'helper:_clientKeyExchange-gets(suite,cert-type,randoms)-of-the-hellos-and-the-dispatched-kx-object',
       FALSE if ko is None or len(args) != 9 else
       z3.And(tv(args[0]) == tv(st.env['settings']), tv(args[1]) == attr('cipher_suite', sh.t),
              tv(args[4]) == attr('certificate_type', sh.t), tv(args[6]) == attr('random', ch.t),
              tv(args[7]) == attr('random', sh.t), tv(args[8]) == ko.t))
    r = fresh_opaque('kx_result')
    st.ghost['kx_res'] = r
    ex.havoc_call('_clientKeyExchange', st)
    return [Outcome('normal', st, r)]


def _h_clientFin(ex, recv, args, kwargs, st, fr, node):
    _order(st, [O_KX], O_FIN, ex, 'helper:Finished-exchange-after-key-exchange')
    sh, ch, kr = st.ghost['sh'], st.ghost['ch'], st.ghost.get('kx_res')
    OB(ex, st, 'helper:_clientFinished-gets-the-premaster-of-the-key-exchange-and-the-hello-randoms',
       FALSE if kr is None or len(args) < 4 else
       z3.And(tv(args[0]) == GETITEM(kr.t, to_val(VInt(0))), tv(args[1]) == attr('random', ch.t),
              tv(args[2]) == attr('random', sh.t), tv(args[3]) == attr('cipher_suite', sh.t)))
    r = fresh_opaque('master_secret')
    st.ghost['fin_res'] = r
    ex.havoc_call('_clientFinished', st)
    return [Outcome('normal', st, r)]


def _h_session_create(ex, recv, args, kwargs, st, fr, node):
    if 'encryptThenMAC' not in kwargs:
        return None
    _order(st, [O_FIN], O_SESSION, ex, 'helper:Session-created-only-after-the-Finished-exchange')
    sh, kr, ms = st.ghost['sh'], st.ghost.get('kx_res'), st.ghost.get('fin_res')
    if kr is None or ms is None or len(args) < 9:
        OB(ex, st, 'helper:Session.create-after-key-exchange-and-Finished', False)
    else:
        OB(ex, st, 'helper:recorded-master-secret-is-the-one-the-server-Finished-was-verified-under', tv(args[0]) == ms.t)
        OB(ex, st, 'helper:recorded-session-id-and-suite-are-the-ServerHello-values',
           z3.And(tv(args[1]) == attr('session_id', sh.t), tv(args[2]) == attr('cipher_suite', sh.t)))
        OB(ex, st, 'helper:recorded-server-chain-is-the-chain-returned-by-_clientKeyExchange(verified-there)',
           tv(args[5]) == GETITEM(kr.t, to_val(VInt(1))))
        OB(ex, st, 'helper:recorded-client-chain-is-the-one-_clientKeyExchange-sent', tv(args[4]) == GETITEM(kr.t, to_val(VInt(2))))
        OB(ex, st, 'helper:recorded-srp-username-and-server-name-are-the-callers',
           z3.And(tv(args[3]) == tv(st.env['srpUsername']), tv(args[8]) == tv(st.env['serverName'])))
    r = fresh_opaque('session_create')
    return [Outcome('normal', st, r)]


def _h_handshakeDone(ex, recv, args, kwargs, st, fr, node):
    cur = st.ghost['order'].t
    resumed = kwargs.get('resumed', args[0] if args else VNone())
    t13, rr = st.ghost.get('tls13_res'), st.ghost.get('resume_res')
    done13 = FALSE if t13 is None else z3.And(cur == O_TLS13, z3.Or(t13.t == to_val(VStr('finished')),
                                                                    t13.t == to_val(VStr('resumed_and_finished'))))
    doneres = FALSE if rr is None else z3.And(cur == O_RESUME, rr.t == to_val(VStr('resumed_and_finished')))
    donefull = cur == O_SESSION
    OB(ex, st, 'helper:handshakeDone-only-after(TLS1.3-flow-finished|abbreviated-handshake-finished|Session-created-after-'
               'Finished)', z3.Or(done13, doneres, donefull))
    OB(ex, st, 'helper:handshakeDone-resumed-flag-matches-the-flow',
       z3.And(z3.Implies(donefull, tv(resumed) == to_val(VBool(FALSE))),
              z3.Implies(doneres, tv(resumed) == to_val(VBool(TRUE))),
              z3.Implies(done13, T_(resumed) == (t13.t == to_val(VStr('resumed_and_finished'))) if t13 is not None else TRUE)))
    OB(ex, st, 'helper:downgrade-sentinel-check-dominates-handshakeDone(RFC8446-4.1.3)', _sentinel_ok(st))
    gset(st, 'done')
    ex.havoc_call('_handshakeDone', st)
    return [Outcome('normal', st, VNone())]


def _setup_helper(ex, st, fr):
    _setup(ex, st, fr)
    st.ghost['entry_session'] = st.env['session']


SPEC_HELPER = M2Spec(hooks={'_sendError': h_sendError, 'valid': _h_valid, '_clientSendClientHello': _h_sendCH,
                            '_clientGetServerHello': _h_getSH, '_clientTLS13Handshake': _h_tls13,
                            '_clientSelectNextProto': _h_selectNP, '_clientResume': _h_resume,
                            'SRPKeyExchange': _mk_kx_hook('SRP'), 'DHE_RSAKeyExchange': _mk_kx_hook('DHE'),
                            'ECDHE_RSAKeyExchange': _mk_kx_hook('ECDHE'), 'RSAKeyExchange': _mk_kx_hook('RSA'),
                            '_clientKeyExchange': _h_clientKX, '_clientFinished': _h_clientFin,
                            'create': _h_session_create, '_handshakeDone': _h_handshakeDone},
                     props_as_fields={'version'}, pure={'getExtension', 'is_valid_hostname', 'len', 'isinstance'})


def _check_helper(api):
    n = api.normal_exits()
    OB(api, api.entry, 'helper:has-normal-exits', len(n) >= 3)
    for o in n:
        OB(api, o.st, 'helper:returns-normally-only-after-handshakeDone', gbool(o.st, 'done'))


task_pair('_handshakeClientAsyncHelper/flow', ('C04', 'C05', 'C06', 'C13', 'C20'), TC + '_handshakeClientAsyncHelper',
       SPEC_HELPER, check=_check_helper, opts=OPTS2, setup=_setup_helper,
       defects=('helper:TLS1.3-flow-only-if-the-negotiated-connection-version-is-1.3',),
       defect_props=('C20', 'C03'),
       defect_doc='the TLS 1.3 flow is chosen by the supported_versions extension alone while the suite was filtered for '
                  'legacy_version when that is < 1.2 (reproduced: TLS 1.3 key schedule entered with '
                  'TLS_RSA_WITH_AES_128_CBC_SHA -> TypeError)',
       doc='client flow: only a valid() cached session is offered; downgrade sentinel check dominates every '
           'completion; key-exchange class chosen according to the IANA meaning of the suite; Session.create records '
           'the ServerHello suite/id, the master secret under which the server Finished verified and the chain '
           '_clientKeyExchange verified; _handshakeDone only at the end of one of the three flows')


# =========================================================================================================
# _clientTLS13Handshake: key-share group and PSK acceptance (C03 / C13; server-auth is contracts/m2_client13.py)
def _sh13(st):
    sh, ch = st.env['serverHello'], st.env['clientHello']
    return (sh, ch, getext(sh, ExtensionType.key_share), getext(sh, ExtensionType.pre_shared_key),
            getext(ch, ExtensionType.key_share), getext(ch, ExtensionType.pre_shared_key))


def _h_getKEX13(ex, recv, args, kwargs, st, fr, node):
    sh, ch, sks, spsk, cks, cpsk = _sh13(st)
    share = attr('server_share', sks)
    cl = st.env.get('cl_kex')
    OB(ex, st, 'ks13:key-exchange-object-is-for-the-group-of-the-server-share', tv(args[0]) == attr('group', share))
    OB(ex, st, 'ks13:a-client-share-OFFERED-in-the-ClientHello-has-the-server-selected-group(RFC8446-4.2.8)',
       FALSE if cl is None else z3.And(tv(cl) != v_none, attr('group', cl) == attr('group', share),
                                       V_IN(tv(cl), attr('client_shares', cks))))
    r = fresh_opaque('kex')
    st.ghost['kex'] = r
    return [Outcome('normal', st, r)]


def _h_calc_shared13(ex, recv, args, kwargs, st, fr, node):
    sh, ch, sks, spsk, cks, cpsk = _sh13(st)
    cl, kex = st.env.get('cl_kex'), st.ghost.get('kex')
    OB(ex, st, 'ks13:shared-secret-from(private-key-of-that-client-share,server-key_exchange)',
       FALSE if cl is None or kex is None else
       z3.And(tv(recv) == kex.t, tv(args[0]) == attr('private', cl), tv(args[1]) == attr('key_exchange', attr('server_share', sks))))
    return [Outcome('normal', st, fresh_opaque('shared_secret'))]


def _h_secureHMAC13(ex, recv, args, kwargs, st, fr, node):
    if not gbool(st, 'early_secret_done').eq(TRUE) and 'early_secret_done' not in st.ghost:
        gset(st, 'early_secret_done')
        sh, ch, sks, spsk, cks, cpsk = _sh13(st)
        sel = attr('selected', spsk)
        idents = attr('identities', cpsk)
        settings = st.env['settings']
        OB(ex, st, 'psk13:server-selected-identity-only-if-PSKs-were-offered-and-index-in-range(RFC8446-4.2.11)',
           z3.Implies(v_truthy(spsk), z3.And(cpsk != v_none,
                                             z3.Not(V_GE(sel, v_int(V_LEN(idents)))), z3.Not(V_LT(sel, to_val(VInt(0)))))))
        OB(ex, st, 'psk13:psk-only-key-exchange(no-key_share)-only-if-psk_ke-mode-was-offered(RFC8446-4.2.9)',
           z3.Implies(z3.And(v_truthy(spsk), z3.Not(v_truthy(sks))), V_IN(to_val(VStr('psk_ke')), attr('psk_modes', settings))))
        OB(ex, st, 'psk13:one-of(key_share,pre_shared_key)-present', z3.Or(v_truthy(sks), v_truthy(spsk)))
        br = st.ghost.get('binder_psk')
        psk = args[1]
        OB(ex, st, 'psk13:resumption-PSK-derived-from(selected-identity,cached-resumption-secret,cached-tickets)',
           z3.Implies(z3.And(v_truthy(spsk), T_(st.env.get('resuming', VBool(FALSE)))),
                      FALSE if br is None else tv(psk) == br.t))
    return [Outcome('normal', st, fresh_opaque('hmac'))]


def _h_binder_psk13(ex, recv, args, kwargs, st, fr, node):
    sh, ch, sks, spsk, cks, cpsk = _sh13(st)
    session = st.env['session']
    r = fresh_opaque('res_binder_psk')
    OB(ex, st, 'psk13:binder-psk-computed-for-the-selected-offered-identity-from-the-cached-session',
       z3.And(tv(args[0]) == GETITEM(attr('identities', cpsk), attr('selected', spsk)),
              tv(args[1]) == attr('resumptionMasterSecret', session), tv(args[2]) == attr('tickets', session))
       if len(args) == 3 else FALSE)
    st.ghost['binder_psk'] = r
    return [Outcome('normal', st, r)]


SPEC_13X = M2Spec(hooks={'_sendError': h_sendError, '_getKEX': _h_getKEX13, 'calc_shared_key': _h_calc_shared13,
                         'secureHMAC': _h_secureHMAC13, 'calc_res_binder_psk': _h_binder_psk13},
                  pure={'getExtension', 'toRepr', 'getHash', 'getPadding', 'curve_name_to_hash_name', 'digest', 'copy',
                        'isinstance', 'len', 'HKDF_expand_label', 'derive_secret', 'decode', '_getPRFParams'})


def _check_13x(api):
    OB(api, api.entry, 'tls13:has-normal-exit', len(api.normal_exits()) >= 1)


task_pair('_clientTLS13Handshake/key-share-and-psk-acceptance', ('C03', 'C13'), TC + '_clientTLS13Handshake', SPEC_13X,
       check=_check_13x, opts=dict(OPTS2, comprehension_facts=True), setup=_setup,
       defects=('psk13:server-selected-identity-only-if', 'psk13:psk-only-key-exchange'),
       defect_props=('C13', 'C03'),
       defect_doc='DESIGN F11: selected PSK identity not checked against the offer (AttributeError / IndexError); '
                  'PSK-only key exchange accepted although only psk_dhe_ke was offered',
       doc='TLS 1.3 client: the (EC)DHE secret is computed with the private key of a share that was offered in the '
           'ClientHello and has the group of the server share; a server-selected PSK must be one that was offered '
           '(index in range) and PSK-only key exchange requires the psk_ke mode')



# =========================================================================================================
# bounded stand-ins / replays of the confirmed defects (specs/client_hs.py, run under /venv/bin/python)
for _prop, _name, _fn in (
        ('C03', 'serverhello_checks', '_clientGetServerHello'), ('C06', 'serverhello_checks', '_clientGetServerHello'),
        ('C20', 'tls13_flow_with_legacy_version', '_handshakeClientAsyncHelper'),
        ('C03', 'tls13_flow_with_legacy_version', '_handshakeClientAsyncHelper'),
        ('C13', 'declined_ticket_falls_back', '_clientResume'),
        ('C06', 'server_refuses_newsessionticket', '_getFinished'),
        ('C13', 'tls13_psk_acceptance', '_clientTLS13Handshake'), ('C03', 'tls13_psk_acceptance', '_clientTLS13Handshake'),
        ('C04', 'clienthello_offer', '_clientSendClientHello'), ('C13', 'clienthello_offer', '_clientSendClientHello')):
    REG.xchecks.append({'prop': _prop, 'module': 'specs.client_hs', 'name': _name, 'function': TC + _fn})

for _p in PROPS:
    REG.note(_p, 'assumptions',
             'm2_client: M2 abstraction -- callees not under contract return unconstrained values and are assumed to '
             'raise nothing (hooks model the declared exceptions of verifyServerKeyExchange and '
             'processServerKeyExchange); Fault injection (self.fault) is off; attribute reads on opaque objects are '
             'functions of the object unless the function under analysis stored the attribute itself')
REG.note('C05', 'assumptions',
         'm2_client: static RSA key exchange has no ServerKeyExchange signature: possession of the certificate key is '
         'proved by the server Finished (premaster encrypted to the end-entity key of the recorded chain: obligation '
         'kx:premaster-derived-with-end-entity-key..., Finished check: _getFinished task); SRP_SHA (no certificate): the '
         'password proof is the Finished under the SRP premaster')
REG.note('C05', 'trusted',
         'm2_client: KeyExchange.verifyServerKeyExchange returns normally only for a valid signature by publicKey over '
         '(clientRandom, serverRandom, params) with (hashAlg, signAlg) in validSigAlgs, else raises '
         'TLSIllegalParameterException / TLSDecryptionFailed (contracts/kex.py, C10)')
REG.note('C04', 'trusted',
         'm2_client: list concatenation lemma instances  x in a ==> x in a+b  are supplied to the obligation about the '
         'renegotiation SCSV; version tuples are totally ordered (v >= w  <=>  not v < w) in the two obligations that mix '
         'both comparisons')
REG.note('C06', 'not_built',
         'm2_client: RFC 5077 3.3 "NewSessionTicket only if the ServerHello carried a SessionTicket extension" is not '
         'stated (the ServerHello is not in scope of _getFinished); the typestate of the TLS 1.3 client flight '
         '(EncryptedExtensions..Finished) is not built here; _clientSRPKeyExchange does not exist in the pinned tree '
         '(SRP runs through _clientKeyExchange + SRPKeyExchange)')
REG.note('C03', 'not_built',
         'm2_client: ALPN/NPN selection result, ec_point_formats intersection and the Session EtM/EMS flags written at '
         'completion are not under obligation; TLS 1.3 certificate curve/sig-hash branch of '
         '_check_certchain_with_settings is executed but carries no obligation')
REG.note('C13', 'not_built',
         'm2_client: TLS 1.3 ticket_age obfuscation arithmetic and binder computation (HandshakeHelpers.update_binders) '
         'are opaque; PSK hash == suite hash check is not stated')
