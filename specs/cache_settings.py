"""Executable specifications + differential runs for C18 (SessionCache, sequential
part) and C19 (HandshakeSettings.validate frame / reject / idempotence).

Pure Python, runs under /venv/bin/python against the real /repo code.  The
reference models are written from the property statements, not from the code.
Bounded stand-in and counterexample finder only: never counted as proved.
"""
import collections
import copy

# ===========================================================================
# C18: sequential reference model of the session cache
#
#   "Sequentially, the cache returns for an ID the session last stored under it
#    if and only if it is younger than the age limit, still valid and not
#    evicted by newer entries."   (+ size bound, + no internal error)
#
# Reading of the size bound (class docstring: "maxEntries: The maximum size of
# the cache.  When this limit is reached, the oldest sessions will be deleted
# as necessary to make room for new ones"): after a store the cache never holds
# maxEntries entries -- reaching the limit evicts the oldest.  One entry per id:
# storing under an id that is present replaces that entry (and makes it the
# newest).  Age is measured from the store to the lookup, `now - t <= maxAge`
# is alive.


class RefCache(object):
    def __init__(self, max_entries, max_age):
        self.max_entries = max_entries
        self.max_age = max_age
        self.entries = collections.OrderedDict()      # id -> (session, t), oldest first

    def set(self, sid, session, now):
        if sid in self.entries:
            del self.entries[sid]
        self.entries[sid] = (session, now)
        if len(self.entries) >= self.max_entries:      # limit reached: evict only the oldest
            self.entries.popitem(last=False)

    def get(self, sid, now):
        """session or None (None = KeyError expected)"""
        e = self.entries.get(sid)
        if e is None:
            return None
        session, t = e
        if now - t > self.max_age:
            return None
        if not session.valid():
            return None
        return session

    def live_count(self, now):
        return sum(1 for (s, t) in self.entries.values() if now - t <= self.max_age)


class FakeSession(object):
    def __init__(self, tag):
        self.tag = tag
        self.resumable = True

    def valid(self):
        return self.resumable

    def __repr__(self):
        return 'S%s' % (self.tag,)


class FakeClock(object):
    def __init__(self):
        self.now = 1000.0

    def time(self):
        return self.now


def _run_history(ops, max_entries, max_age):
    """Drive the real cache and the reference model through `ops`.
    Returns None or (step, description)."""
    import tlslite.sessioncache as m
    clock = FakeClock()
    saved = m.time
    m.time = clock
    try:
        real = m.SessionCache(maxEntries=max_entries, maxAge=max_age)
        ref = RefCache(max_entries, max_age)
        sessions = {}
        for step, op in enumerate(ops):
            kind = op[0]
            if kind == 'tick':
                clock.now += op[1]
            elif kind == 'set':
                s = FakeSession('%s.%d' % (op[1].decode(), step))
                sessions.setdefault(op[1], []).append(s)
                try:
                    real[bytearray(op[1])] = s
                except Exception as e:            # no exception may leave a store
                    return step, 'store raised %s(%s)' % (type(e).__name__, e)
                ref.set(op[1], s, clock.now)
            elif kind == 'invalidate':
                for s in sessions.get(op[1], [])[-1:]:
                    s.resumable = False
            elif kind == 'get':
                want = ref.get(op[1], clock.now)
                try:
                    got = real[bytearray(op[1])]
                except KeyError:
                    got = None
                except Exception as e:
                    return step, 'lookup raised %s(%s)' % (type(e).__name__, e)
                if got is not want:
                    return step, 'lookup of %r at t=%s returned %r, specification says %r' % (
                        op[1], clock.now - 1000.0, got, want)
            # size bound (entries the cache can still return)
            if len(real.entriesDict) > max(max_entries, 0):
                return step, 'cache holds %d entries, bound is %d' % (len(real.entriesDict), max_entries)
        return None
    finally:
        m.time = saved


def _gen_history(rng, length, ids, unique):
    ops = []
    fresh = 0
    for _ in range(length):
        r = rng.random()
        if r < 0.40:
            if unique:
                sid = ('u%d' % fresh).encode()
                fresh += 1
            else:
                sid = rng.choice(ids)
            ops.append(('set', sid))
        elif r < 0.75:
            pool = ids if not unique else ([('u%d' % k).encode() for k in range(max(fresh, 1))] + [b'zz'])
            ops.append(('get', rng.choice(pool)))
        elif r < 0.92:
            ops.append(('tick', rng.choice([0, 1, 1, 2, 3, 5, 8, 13, 21])))
        else:
            pool = ids if not unique else [('u%d' % k).encode() for k in range(max(fresh, 1))]
            ops.append(('invalidate', rng.choice(pool)))
    return ops


def _has_live_duplicate(ops, failing_step, max_entries, max_age):
    """Did the history (up to the failing step) store under an id that the
    specification still holds?  That is the known same-id-twice situation."""
    ref = RefCache(max_entries, max_age)
    now = 0
    for op in ops[:failing_step + 1]:
        if op[0] == 'tick':
            now += op[1]
        elif op[0] == 'set':
            if op[1] in ref.entries:
                return True
            ref.set(op[1], FakeSession('x'), now)
    return False


def _shrink(ops, max_entries, max_age):
    """Greedy removal of operations while the history still fails."""
    cur = list(ops)
    changed = True
    while changed and len(cur) > 1:
        changed = False
        for i in range(len(cur) - 1, -1, -1):
            cand = cur[:i] + cur[i + 1:]
            if _run_history(cand, max_entries, max_age) is not None:
                cur = cand
                changed = True
    return cur


def _fmt_ops(ops):
    return [[o[0], o[1].decode() if isinstance(o[1], bytes) else o[1]] for o in ops]


def cache_histories(rng, n):
    """Random get/set/clock/invalidate histories, real cache vs reference model."""
    failures = []
    seen_classes = {}
    evaluations = 0
    nontrivial = 0
    ids = [b'A', b'B', b'C', b'D', b'E', b'F']
    for k in range(n):
        unique = (k % 2 == 0)
        max_entries = rng.choice([2, 3, 4, 5, 6, 8])
        max_age = rng.choice([3, 5, 10, 20, 50])
        ops = _gen_history(rng, rng.randint(4, 40), ids, unique)
        evaluations += 1
        if any(o[0] == 'get' for o in ops) and any(o[0] == 'set' for o in ops):
            nontrivial += 1
        bad = _run_history(ops, max_entries, max_age)
        if bad is None:
            continue
        step, what = bad
        ops = ops[:step + 1]
        small = _shrink(ops, max_entries, max_age)
        step2, what2 = _run_history(small, max_entries, max_age)
        dup = _has_live_duplicate(small, step2, max_entries, max_age)
        cls = 'cache-same-id-twice' if dup else 'cache-divergence'
        seen_classes[cls] = seen_classes.get(cls, 0) + 1
        if seen_classes[cls] <= 3:
            failures.append({'class': cls, 'what': what2,
                             'input': {'maxEntries': max_entries, 'maxAge': max_age, 'history': _fmt_ops(small)}})
    return {'evaluations': evaluations, 'distinct_nontrivial': nontrivial,
            'bound': 'histories of 4..40 operations (set/get/tick/invalidate), 6 ids or all-fresh ids, '
                     'maxEntries in {2,3,4,5,6,8}, maxAge in {3,..,50}, integer clock steps',
            'rule': 'real SessionCache == sequential reference model (last stored, young, valid, not evicted); '
                    'no exception but KeyError from lookup, none from store; size bound',
            'failure_counts': seen_classes, 'failures': failures}


def cache_degenerate_sizes(rng, n):
    """maxEntries in {0, 1}: no internal error, size bound."""
    failures = []
    evaluations = 0
    for max_entries in (0, 1):
        for k in range(max(2, min(n, 40))):
            ops = _gen_history(rng, rng.randint(2, 12), [b'A', b'B'], k % 2 == 0)
            evaluations += 1
            bad = _run_history(ops, max_entries, 10)
            if bad is not None:
                small = _shrink(ops[:bad[0] + 1], max_entries, 10)
                failures.append({'class': 'cache-maxentries-%d' % max_entries, 'what': _run_history(small, max_entries, 10)[1],
                                 'input': {'maxEntries': max_entries, 'maxAge': 10, 'history': _fmt_ops(small)}})
                break
    return {'evaluations': evaluations, 'distinct_nontrivial': evaluations,
            'bound': 'maxEntries in {0,1}, histories of 2..12 operations',
            'rule': 'as cache_histories', 'failures': failures}


# ===========================================================================
# C19: validate() leaves its receiver untouched; rejects out-of-domain values;
# is idempotent

def _settings_variation(rng):
    """A settings object obtained from the defaults by restricting / reordering
    a random subset of dimensions (the property's quantifier)."""
    from tlslite.handshakesettings import HandshakeSettings
    s = HandshakeSettings()
    desc = {}

    def sub(name, keep_nonempty=True):
        cur = list(getattr(s, name))
        if not cur:
            return
        k = rng.randint(1 if keep_nonempty else 0, len(cur))
        new = rng.sample(cur, k)
        setattr(s, name, new)
        desc[name] = list(new)
    dims = ['cipherNames', 'macNames', 'keyExchangeNames', 'cipherImplementations', 'rsaSigHashes', 'dsaSigHashes',
            'ecdsaSigHashes', 'more_sig_schemes', 'rsaSchemes', 'eccCurves', 'dhGroups', 'psk_modes',
            'certificate_compression_send', 'certificate_compression_receive']
    for d in dims:
        if rng.random() < 0.35:
            sub(d)
    if rng.random() < 0.4:
        lo, hi = sorted(rng.sample([(3, 0), (3, 1), (3, 2), (3, 3), (3, 4)], 2))
        s.minVersion, s.maxVersion = lo, hi
        desc['minVersion'], desc['maxVersion'] = lo, hi
    if rng.random() < 0.3:
        s.keyShares = [g for g in s.keyShares if g in s.eccCurves or g in s.dhGroups]
        desc['keyShares'] = list(s.keyShares)
    else:
        s.keyShares = [g for g in s.keyShares if g in s.eccCurves or g in s.dhGroups]
    for name, choices in (('minKeySize', [512, 1023, 2048]), ('maxKeySize', [2048, 8193, 16384]),
                          ('useEncryptThenMAC', [True, False]), ('useExtendedMasterSecret', [True, False]),
                          ('usePaddingExtension', [True, False]), ('sendFallbackSCSV', [True, False]),
                          ('record_size_limit', [None, 64, 512, 2 ** 14, 2 ** 14 + 1]),
                          ('ticket_count', [0, 1, 2, 5]), ('ticketLifetime', [1, 3600, 604800]),
                          ('max_early_data', [1, 2 ** 14, 2 ** 20]),
                          ('ticketCipher', ['aes256gcm', 'aes128gcm', 'chacha20-poly1305']),
                          ('ticketKeys', [[], [bytearray(32)], [bytearray(16), bytearray(32)]]),
                          ('pskConfigs', [[], [(b'id', b'secret')], [(b'id', b'secret', 'sha384')]]),
                          ('defaultCurve', ['secp256r1', 'secp384r1', 'x25519'])):
        if rng.random() < 0.3:
            v = copy.deepcopy(rng.choice(choices))
            setattr(s, name, v)
            desc[name] = copy.deepcopy(v)
    if s.requireExtendedMasterSecret and not s.useExtendedMasterSecret:
        s.useExtendedMasterSecret = True
    return s, desc


def _snapshot(s):
    """(deep copy of the attribute values, identity of every attribute value)"""
    return copy.deepcopy(vars(s)), {k: id(v) for k, v in vars(s).items()}


def _diff(s, snap):
    vals, ids = snap
    changed = []
    now = vars(s)
    for k in sorted(set(vals) | set(now)):
        if k not in now or k not in vals:
            changed.append((k, 'attribute %s' % ('removed' if k not in now else 'added')))
        elif now[k] != vals[k]:
            changed.append((k, '%r -> %r' % (vals[k], now[k])))
        elif id(now[k]) != ids[k]:
            changed.append((k, 're-bound to another object'))
    return changed


def validate_frame(rng, n):
    """validate() never modifies its receiver (snapshot before / after), also when it raises."""
    failures = []
    counts = {}
    evaluations = 0
    raised = 0
    for k in range(n):
        s, desc = _settings_variation(rng)
        if k % 7 == 3:       # some rejected configurations as well: the frame holds on the raising path too
            s.cipherNames = list(s.cipherNames) + ['no-such-cipher']
            desc['cipherNames'] = list(s.cipherNames)
        snap = _snapshot(s)
        evaluations += 1
        try:
            s.validate()
        except ValueError:
            raised += 1
        except Exception as e:
            failures.append({'class': 'validate-raises-%s' % type(e).__name__, 'what': repr(e), 'input': desc})
            continue
        ch = _diff(s, snap)
        if ch:
            fields = sorted(set(c[0] for c in ch))
            cls = 'validate-mutates-cipherImplementations' if fields == ['cipherImplementations'] \
                else 'validate-mutates-' + '+'.join(fields)
            counts[cls] = counts.get(cls, 0) + 1
            if counts[cls] <= 3:
                failures.append({'class': cls, 'what': 'receiver changed by validate(): ' +
                                 '; '.join('%s: %s' % c for c in ch), 'input': desc})
    return {'evaluations': evaluations, 'distinct_nontrivial': evaluations - raised,
            'bound': 'settings obtained from the defaults by restricting/reordering random subsets of 14 list dimensions, '
                     'versions, key sizes, flags, ticket/PSK options',
            'rule': 'vars(s) (values and object identities) equal before and after s.validate()',
            'failure_counts': counts, 'failures': failures}


# documented domains (class docstring of HandshakeSettings, RFC 8446 / 8449 where the docstring refers to them);
# each entry: field -> list of (out-of-domain value, why)
def _out_of_domain_cases():
    return [
        ('minKeySize', 0, 'bit length must be positive'),
        ('minKeySize', -1024, 'bit length must be positive'),
        ('minKeySize', 2 ** 24, 'absurd minimum key size'),
        ('maxKeySize', 0, 'bit length must be positive'),
        ('maxKeySize', 2 ** 24, 'absurd maximum key size'),
        ('maxKeySize', 1000, 'smaller than minKeySize (1023)'),
        ('minVersion', (2, 0), 'not an SSL/TLS version of the docstring list'),
        ('minVersion', (3, 5), 'not a known version'),
        ('maxVersion', (3, 5), 'not a known version'),
        ('maxVersion', (4, 0), 'not a known version'),
        ('maxVersion', (3, 0), 'below minVersion (3, 1)'),
        ('record_size_limit', 63, 'docstring: must not be smaller than 64'),
        ('record_size_limit', 0, 'docstring: must not be smaller than 64'),
        ('record_size_limit', -5, 'docstring: must not be smaller than 64'),
        ('record_size_limit', 2 ** 14 + 2, 'docstring: must not be larger than 2**14+1'),
        ('ticketLifetime', 0, 'lifetime in seconds must be positive'),
        ('ticketLifetime', -1, 'lifetime in seconds must be positive'),
        ('ticketLifetime', 604801, 'RFC 8446 4.6.1: at most 7 days'),
        ('ticket_count', -1, 'number of tickets'),
        ('ticket_count', 2 ** 16, 'number of tickets'),
        ('max_early_data', 0, 'positive number of bytes'),
        ('max_early_data', -1, 'positive number of bytes'),
        ('max_early_data', 2 ** 64 + 1, 'number of bytes'),
        ('cipherNames', ['aes128', 'des'], 'docstring list of allowed ciphers'),
        ('cipherNames', [], 'no cipher left'),
        ('macNames', ['sha', 'sha3'], 'docstring list of allowed MACs'),
        ('certificateTypes', ['openpgp'], "docstring: only 'x509'"),
        ('certificateTypes', [], 'no certificate type'),
        ('rsaSigHashes', ['sha256', 'sha3'], 'docstring list'),
        ('dsaSigHashes', ['md5'], 'docstring list (md5 only for RSA)'),
        ('ecdsaSigHashes', ['md5'], 'docstring list'),
        ('more_sig_schemes', ['rsa'], 'docstring list'),
        ('eccCurves', ['secp256r1', 'curve1'], 'unknown curve'),
        ('defaultCurve', 'curve1', 'unknown curve'),
        ('keyShares', ['secp256k1'], 'key share for a group that is not enabled'),
        ('keyExchangeNames', ['rsa', 'kerberos'], 'unknown key exchange'),
        ('cipherImplementations', ['python', 'nss'], 'unknown implementation'),
        ('ticketCipher', 'aes192gcm', 'docstring list'),
        ('ticketKeys', [bytearray(17)], 'docstring: 16 or 32 bytes'),
        ('pskConfigs', [(b'a',)], 'docstring: 2 or 3 element tuples'),
        ('pskConfigs', [(b'a', b'b', 'md5')], "docstring: 'sha256' or 'sha384'"),
        ('psk_modes', ['psk_ke', 'psk'], 'unknown mode'),
        ('useEncryptThenMAC', 2, 'bool'),
        ('usePaddingExtension', 'yes', 'bool'),
        ('useExtendedMasterSecret', None, 'bool'),
        ('requireExtendedMasterSecret', 3, 'bool'),
        ('use_heartbeat_extension', 'no', 'bool'),
        ('certificate_compression_send', ['lzma'], 'unknown algorithm'),
        ('certificate_compression_receive', ['lzma'], 'unknown algorithm'),
    ]


def validate_reject(rng, n):
    """A well-typed value outside the documented domain => ValueError and nothing else;
    in-domain variations are accepted."""
    from tlslite.handshakesettings import HandshakeSettings
    failures = []
    evaluations = 0
    cases = _out_of_domain_cases()
    for (field, value, why) in cases:
        s = HandshakeSettings()
        setattr(s, field, value)
        if field == 'requireExtendedMasterSecret':
            pass
        evaluations += 1
        try:
            s.validate()
            failures.append({'class': 'validate-accepts-out-of-domain-%s' % field,
                             'what': '%s = %r accepted (%s)' % (field, value, why), 'input': {field: value}})
        except ValueError:
            pass
        except Exception as e:
            failures.append({'class': 'validate-raises-%s-for-%s' % (type(e).__name__, field),
                             'what': '%s = %r raised %r instead of ValueError (%s)' % (field, value, e, why),
                             'input': {field: value}})
    # combination rule of the docstring: requireExtendedMasterSecret requires useExtendedMasterSecret
    s = HandshakeSettings()
    s.requireExtendedMasterSecret = True
    s.useExtendedMasterSecret = False
    evaluations += 1
    try:
        s.validate()
        failures.append({'class': 'validate-accepts-out-of-domain-requireExtendedMasterSecret',
                         'what': 'requireExtendedMasterSecret without useExtendedMasterSecret accepted', 'input': {}})
    except ValueError:
        pass
    # in-domain variations are accepted
    accepted = 0
    for k in range(n):
        s, desc = _settings_variation(rng)
        evaluations += 1
        try:
            s.validate()
            accepted += 1
        except ValueError as e:
            # legitimate only when the random restriction removed every usable option; list the reason
            if not _legit_reject(s, e):
                failures.append({'class': 'validate-rejects-in-domain', 'what': 'ValueError(%s)' % e, 'input': desc})
        except Exception as e:
            failures.append({'class': 'validate-raises-%s' % type(e).__name__, 'what': repr(e), 'input': desc})
    return {'evaluations': evaluations, 'distinct_nontrivial': len(cases) + accepted,
            'bound': '%d single-field out-of-domain cases from the documented domains + %d in-domain variations'
                     % (len(cases) + 1, n),
            'rule': 'out-of-domain => ValueError and nothing else; in-domain => accepted', 'failures': failures[:12]}


def _legit_reject(s, e):
    msg = str(e)
    if 'No supported cipher implementations' in msg:
        from tlslite.utils import cryptomath
        avail = ['python'] + (['openssl'] if cryptomath.m2cryptoLoaded else []) + \
                (['pycrypto'] if cryptomath.pycryptoLoaded else [])
        return not any(i in avail for i in s.cipherImplementations)
    if 'TLS 1.2 requires signature algorithms' in msg:
        return True
    if 'forbidden in TLS 1.3' in msg or 'Key shares for not enabled groups' in msg:
        return True
    return False


def validate_idempotent(rng, n):
    """validate(validate(s)) is field-wise equal to validate(s)."""
    failures = []
    evaluations = 0
    done = 0
    for k in range(n):
        s, desc = _settings_variation(rng)
        evaluations += 1
        try:
            v1 = s.validate()
        except ValueError:
            continue
        snap = copy.deepcopy(vars(v1))
        try:
            v2 = v1.validate()
        except Exception as e:
            failures.append({'class': 'validate-not-idempotent', 'what': 'second validate raised %r' % (e,), 'input': desc})
            continue
        done += 1
        d = [k2 for k2 in sorted(snap) if vars(v2).get(k2) != snap[k2]]
        if d:
            failures.append({'class': 'validate-not-idempotent',
                             'what': 'fields differ after second validate: %s' % d, 'input': desc})
    return {'evaluations': evaluations, 'distinct_nontrivial': done, 'bound': 'as validate_frame',
            'rule': 'vars(validate(validate(s))) == vars(validate(s))', 'failures': failures[:5]}


XCHECKS = {
    'cache_histories': cache_histories,
    'cache_degenerate_sizes': cache_degenerate_sizes,
    'validate_frame': validate_frame,
    'validate_reject': validate_reject,
    'validate_idempotent': validate_idempotent,
}
